package main

// Symbolic execution of one function's SSA into proof obligations.

import (
	"fmt"
	"go/ast"
	"go/constant"
	"go/token"
	"go/types"
	"sort"
	"strings"

	"golang.org/x/tools/go/ast/astutil"
	"golang.org/x/tools/go/ssa"
)

type Obligation struct {
	Name    string
	Kind    string
	Tags    []string
	Func    string
	Pos     token.Position
	Text    string // source text / clause text
	PC      Term
	Goal    Term
	NDecls  int // prefix of decls / asserts visible to this obligation
	NAssert int
	Result  *SolverResult
	Note    string
	Model   map[string]string
	// model query terms: name -> term text
	Watch map[string]string
}

type Epoch struct {
	id      int
	kind    int // 0 root/havoc, 1 merge, 2 frame
	parents []heapSnap
	conds   []Term
	wmPre   Term
	mods    *ModSet
	memo    map[string]Term
}

type heapSnap struct {
	epoch    *Epoch
	explicit map[string]Term
}

type ModSet struct {
	all       bool
	whole     map[string]bool   // array-name prefix (kind|type|path) -> whole array may change
	refs      map[string][]Term // array-name prefix -> only these object refs may change
	allocates bool
	ghosts    map[string]bool // ghost variables that may change
	from      map[string][]fromRef // element arrays: of these backing arrays only positions >= lo may change
	alloc     *allocInfo           // which kinds of objects the call may allocate (nil: any)
}

// fromRef: "elemsfrom(s, k)" - of the backing array of s only the elements at positions off(s)+k and above may change
type fromRef struct {
	ref Term
	lo  Term
}

func (m *ModSet) fromOf(name string) []fromRef {
	if m == nil {
		return nil
	}
	var out []fromRef
	for p, fs := range m.from {
		if name == p || strings.HasPrefix(name, p+".") || strings.HasPrefix(name, p+"|") {
			out = append(out, fs...)
		}
	}
	return out
}

func (m *ModSet) lookup(name string) (whole bool, refs []Term, touched bool) {
	if m == nil {
		return false, nil, false
	}
	if m.all {
		return true, nil, true
	}
	for p := range m.whole {
		if name == p || strings.HasPrefix(name, p+".") || strings.HasPrefix(name, p+"|") {
			return true, nil, true
		}
	}
	for p, r := range m.refs {
		if name == p || strings.HasPrefix(name, p+".") || strings.HasPrefix(name, p+"|") {
			refs = append(refs, r...)
			touched = true
		}
	}
	return false, refs, touched
}

type State struct {
	pc    Term
	cells map[*ssa.Alloc]Value
	heap  map[string]Term
	epoch *Epoch
	wm    Term
	ghost map[string]Value
}

func (s *State) clone() *State {
	n := &State{pc: s.pc, epoch: s.epoch, wm: s.wm}
	n.cells = make(map[*ssa.Alloc]Value, len(s.cells))
	for k, v := range s.cells {
		n.cells[k] = v
	}
	n.heap = make(map[string]Term, len(s.heap))
	for k, v := range s.heap {
		n.heap[k] = v
	}
	n.ghost = make(map[string]Value, len(s.ghost))
	for k, v := range s.ghost {
		n.ghost[k] = v
	}
	return n
}

func (s *State) snap() heapSnap { return heapSnap{s.epoch, s.heap} }

type Exec struct {
	P   *Program
	C   *Contracts
	fn  *ssa.Function
	key string
	fc  *FuncContract

	decls     []string
	declared  map[string]bool
	asserts   []string
	obls      []*Obligation
	nfresh    int
	lits      map[string]Term
	litOrder  []string
	nepoch    int
	heapSorts map[string]Sort
	typeTags  map[string]int
	tagTypes  []types.Type
	funcIDs   map[*ssa.Function]int
	occ       map[string]int
	depth     int
	stack     []*ssa.Function
	notes     []string
	specUsed  map[string]bool
	specOrder []string
	trusted   map[string]bool // trusted contracts / assumptions used
	bv        bool
	entry     *State // entry state of the top-level function (for old())
	opts      ExecOpts
	lemmasIn  bool
	auxFrames []*Frame

	quiet          int
	quantDepth     int
	discovering    int
	orders         map[*ssa.Function]map[*ssa.BasicBlock]int
	loopsNoMeasure map[string]bool
	lemmaStart     int
	lastResult     Value
	modelExtra     string
	litLens        map[string]int
	retInfos       []retInfo
	prefHash       [][32]byte // cache.go
	guardProv      map[string]*guardInfo // guard.go: map references read out of guarded fields
	entryWM        Term
	rangeDom0      map[*ssa.Range]string // key-set term of a ranged-over map when its iteration started
}

type retInfo struct {
	pc  Term
	pos token.Pos
}

type ExecOpts struct {
	NoPanicObls bool // do not emit run-time panic obligations
	AutoInv     bool
	ExtraInv    map[string][]autoInv
}

func newExec(P *Program, C *Contracts, fn *ssa.Function) *Exec {
	x := &Exec{P: P, C: C, fn: fn, declared: map[string]bool{}, lits: map[string]Term{}, heapSorts: map[string]Sort{},
		typeTags: map[string]int{}, funcIDs: map[*ssa.Function]int{}, occ: map[string]int{}, specUsed: map[string]bool{}, trusted: map[string]bool{}}
	if fn != nil {
		x.key = P.funcKey(fn)
		x.fc = C.Funcs[x.key]
	}
	return x
}

// ---------------------------------------------------------------------------
// declarations, fresh names, assumptions

func (x *Exec) declare(name string, sort Sort) Term {
	if !x.declared[name] {
		x.declared[name] = true
		x.decls = append(x.decls, fmt.Sprintf("(declare-fun %s () %s)", name, sort))
	}
	return Term{name, sort}
}

func (x *Exec) fresh(hint string, sort Sort) Term {
	x.nfresh++
	name := fmt.Sprintf("%s!%d", sanitize(hint), x.nfresh)
	return x.declare(name, sort)
}

// assumeLocal: a fact about a value just read (typing); dropped while evaluating under a binder,
// where the value may mention bound variables.
func (x *Exec) assumeLocal(t Term) {
	if x.quiet > 0 {
		return
	}
	x.assume(t)
}

func (x *Exec) assume(t Term) {
	if t.S == "true" {
		return
	}
	x.asserts = append(x.asserts, "(assert "+t.S+")")
}

// define introduces a named constant equal to t when t is large.
func (x *Exec) define(hint string, t Term) Term {
	if len(t.S) < 48 || x.quantDepth > 0 || hasQuant(t) {
		return t
	}
	c := x.fresh(hint, t.Sort)
	x.assume(Eq(c, t))
	return c
}

func (x *Exec) note(format string, a ...any) {
	x.notes = append(x.notes, fmt.Sprintf(format, a...))
}

// ---------------------------------------------------------------------------
// obligations

func (x *Exec) oblName(kind, text string) string {
	base := fmt.Sprintf("%s/%s[%s]", x.key, kind, compactSrc(text))
	x.occ[base]++
	return fmt.Sprintf("%s#%d", base, x.occ[base])
}

func (x *Exec) check(st *State, kind string, tags []string, pos token.Pos, text string, goal Term) *Obligation {
	// a quantified conjunction is checked conjunct by conjunct (smaller queries, finer reports)
	if hasQuant(goal) && strings.HasPrefix(goal.S, "(and ") {
		parts := flattenAnd(goal)
		if len(parts) > 1 {
			var last *Obligation
			for _, p := range parts {
				last = x.check(st, kind, tags, pos, text, p)
			}
			return last
		}
	}
	if goal.S == "true" {
		// still count it: trivially discharged obligations are recorded as such
		o := &Obligation{Name: x.oblName(kind, text), Kind: kind, Tags: tags, Func: x.key, Text: text, PC: st.pc, Goal: goal, NDecls: len(x.decls), NAssert: len(x.asserts)}
		if pos.IsValid() {
			o.Pos = x.P.Fset.Position(pos)
		}
		x.obls = append(x.obls, o)
		return o
	}
	g := x.define("goal", goal)
	o := &Obligation{Name: x.oblName(kind, text), Kind: kind, Tags: tags, Func: x.key, Text: text, PC: st.pc, Goal: g, NDecls: len(x.decls), NAssert: len(x.asserts)}
	if pos.IsValid() {
		o.Pos = x.P.Fset.Position(pos)
	}
	x.obls = append(x.obls, o)
	// subsequent code may assume the goal
	st.pc = x.andPC(st.pc, g)
	return o
}

func (x *Exec) andPC(pc, c Term) Term {
	if c.S == "true" {
		return pc
	}
	t := And(pc, c)
	if hasQuant(c) {
		// never hide a quantifier under a named Boolean: a one-directional definition keeps it instantiable
		n := x.fresh("pc", SBool)
		x.assume(Implies(n, t))
		return n
	}
	if len(t.S) > 60 {
		n := x.fresh("pc", SBool)
		x.assume(Eq(n, t))
		return n
	}
	return t
}

// panicCheck emits a run-time-panic obligation unless disabled.
func (x *Exec) panicCheck(st *State, kind string, pos token.Pos, goal Term) {
	if x.opts.NoPanicObls || x.depth > 0 && x.inlineQuiet() {
		st.pc = x.andPC(st.pc, goal)
		return
	}
	x.check(st, kind, nil, pos, x.srcAt(pos), goal)
}

func (x *Exec) inlineQuiet() bool { return false }

// srcAt recovers the source text of the expression at pos.
func (x *Exec) srcAt(pos token.Pos) string {
	if !pos.IsValid() {
		return "?"
	}
	var file *ast.File
	for _, p := range x.P.Pkgs {
		for _, f := range p.Syntax {
			if f.Pos() <= pos && pos <= f.End() {
				file = f
			}
		}
	}
	if file == nil {
		return x.P.Fset.Position(pos).String()
	}
	path, _ := astutil.PathEnclosingInterval(file, pos, pos)
	for i, n := range path {
		switch n := n.(type) {
		case *ast.Ident:
			if i+1 < len(path) {
				if se, ok := path[i+1].(*ast.SelectorExpr); ok && se.Sel == n {
					return x.P.srcText(se.Pos(), se.End())
				}
			}
			return n.Name
		case *ast.IndexExpr, *ast.SliceExpr, *ast.TypeAssertExpr, *ast.CallExpr, *ast.StarExpr, *ast.SelectorExpr, *ast.BinaryExpr, *ast.UnaryExpr, *ast.CompositeLit:
			return x.P.srcText(n.Pos(), n.End())
		case *ast.AssignStmt:
			return x.P.srcText(n.Pos(), n.End())
		case *ast.IncDecStmt, *ast.RangeStmt, *ast.SendStmt, *ast.ReturnStmt, *ast.GoStmt, *ast.DeferStmt:
			s := x.P.srcText(n.Pos(), n.End())
			if k := strings.Index(s, "{"); k > 0 {
				s = s[:k]
			}
			return s
		}
	}
	return x.P.Fset.Position(pos).String()
}

// ---------------------------------------------------------------------------
// heap arrays and epochs

func (x *Exec) newEpoch(kind int) *Epoch {
	x.nepoch++
	return &Epoch{id: x.nepoch, kind: kind, memo: map[string]Term{}}
}

func (x *Exec) heapGet(st *State, name string, sort Sort) Term {
	return x.snapGet(st.snap(), name, sort)
}

func (x *Exec) snapGet(s heapSnap, name string, sort Sort) Term {
	if t, ok := s.explicit[name]; ok {
		return t
	}
	return x.epochDefault(s.epoch, name, sort)
}

func (x *Exec) epochDefault(e *Epoch, name string, sort Sort) Term {
	if t, ok := e.memo[name]; ok {
		return t
	}
	if old, ok := x.heapSorts[name]; ok && old != sort {
		panic(fmt.Sprintf("heap array %s used at sorts %s and %s", name, old, sort))
	}
	x.heapSorts[name] = sort
	var res Term
	switch e.kind {
	case 0:
		res = x.declare(fmt.Sprintf("%s@e%d", sanitize(name), e.id), sort)
	case 1:
		vals := make([]Term, len(e.parents))
		same := true
		for i, p := range e.parents {
			vals[i] = x.snapGet(p, name, sort)
			if vals[i].S != vals[0].S {
				same = false
			}
		}
		if same {
			res = vals[0]
		} else {
			res = x.declare(fmt.Sprintf("%s@e%d", sanitize(name), e.id), sort)
			for i := range vals {
				x.assume(Implies(e.conds[i], Eq(res, vals[i])))
			}
		}
	case 2:
		old := x.snapGet(e.parents[0], name, sort)
		whole, refs, touched := e.mods.lookup(name)
		switch {
		case whole:
			res = x.declare(fmt.Sprintf("%s@e%d", sanitize(name), e.id), sort)
		case !touched && (!e.mods.allocates || !e.mods.alloc.mayAlloc(name)):
			res = old
		case !strings.HasPrefix(string(sort), "(Array Int "):
			// a global variable etc: not indexed by object
			if touched {
				res = x.declare(fmt.Sprintf("%s@e%d", sanitize(name), e.id), sort)
			} else {
				res = old
			}
		default:
			res = x.declare(fmt.Sprintf("%s@e%d", sanitize(name), e.id), sort)
			conds := []Term{Le(IntLit(0), Term{"r", SInt}), Le(Term{"r", SInt}, e.wmPre)}
			for _, r := range refs {
				conds = append(conds, Not(Eq(Term{"r", SInt}, r)))
			}
			body := Implies(And(conds...), Eq(Select(res, Term{"r", SInt}), Select(old, Term{"r", SInt})))
			x.assume(Term{fmt.Sprintf("(forall ((r Int)) (! %s :pattern ((select %s r))))", body.S, res.S), SBool})
			for _, f := range e.mods.fromOf(name) {
				row, orow := Select(res, f.ref), Select(old, f.ref)
				b := Implies(Lt(Term{"i", SInt}, f.lo), Eq(Select(row, Term{"i", SInt}), Select(orow, Term{"i", SInt})))
				x.assume(Term{fmt.Sprintf("(forall ((i Int)) (! %s :pattern ((select %s i))))", b.S, row.S), SBool})
			}
		}
	}
	e.memo[name] = res
	return res
}

func (x *Exec) heapSet(st *State, name string, t Term) {
	if old, ok := x.heapSorts[name]; ok && old != t.Sort {
		panic(fmt.Sprintf("heap array %s set at sorts %s and %s", name, old, t.Sort))
	}
	x.heapSorts[name] = t.Sort
	st.heap[name] = t
}

// havocAll forgets the whole heap (unknown callee).
func (x *Exec) havocAll(st *State) {
	st.epoch = x.newEpoch(0)
	st.heap = map[string]Term{}
	wm := x.fresh("wm", SInt)
	x.assume(Ge(wm, st.wm))
	st.wm = wm
}

// frameEpoch starts a new epoch after a contract call.
func (x *Exec) frameEpoch(st *State, mods *ModSet) {
	if mods == nil || (!mods.all && len(mods.whole) == 0 && len(mods.refs) == 0 && !mods.allocates) {
		return
	}
	if mods.all {
		x.havocAll(st)
		return
	}
	e := x.newEpoch(2)
	e.parents = []heapSnap{st.snap()}
	e.wmPre = st.wm
	e.mods = mods
	st.epoch = e
	st.heap = map[string]Term{}
	wm := x.fresh("wm", SInt)
	x.assume(Ge(wm, st.wm))
	st.wm = wm
}

func (x *Exec) alloc(st *State, hint string) Term {
	r := x.fresh(hint, SInt)
	x.assume(Eq(r, Add(st.wm, IntLit(1))))
	st.wm = r
	return r
}

// ---------------------------------------------------------------------------
// places

func fieldPathName(root types.Type, path []int) (string, types.Type) {
	t := root
	var parts []string
	for _, i := range path {
		s := t.Underlying().(*types.Struct)
		parts = append(parts, s.Field(i).Name())
		t = s.Field(i).Type()
	}
	return strings.Join(parts, "."), t
}

func joinLeaf(prefix, leaf string) string {
	if prefix == "" {
		return leaf
	}
	if leaf == "" {
		return prefix
	}
	return prefix + "." + leaf
}

func (x *Exec) placeLeafArrays(p *Place) (names []string, leaves []Leaf) {
	var prefix string
	var fieldPrefix string
	switch p.Kind {
	case PField:
		fieldPrefix, _ = fieldPathName(p.Root, p.Path)
		prefix = "F|" + typeName(p.Root) + "|"
	case PElem:
		fieldPrefix, _ = fieldPathName(p.Root, p.Path)
		prefix = "E|" + typeName(p.Root) + "|"
	case PBox:
		fieldPrefix, _ = fieldPathName(p.Root, p.Path)
		prefix = "B|" + typeName(p.Root) + "|"
	case PGlobal:
		fieldPrefix, _ = fieldPathName(p.Root, p.Path)
		prefix = "V|" + p.Global.Pkg.Pkg.Path() + "." + p.Global.Name() + "|"
	default:
		panic("placeLeafArrays on cell")
	}
	for _, l := range leavesOf(p.Typ) {
		names = append(names, prefix+joinLeaf(fieldPrefix, l.Name))
		leaves = append(leaves, l)
	}
	return
}

func (x *Exec) loadPlace(st *State, p *Place) Value {
	switch p.Kind {
	case PCell:
		v, ok := st.cells[p.Alloc]
		if !ok {
			panic(fmt.Sprintf("load of unset cell %s (%s)", p.Alloc.Name(), p.Alloc.Comment))
		}
		for _, i := range p.Path {
			v = v.(VStruct).Fields[i]
		}
		if p.ArrIdx != nil {
			a := v.(VArr)
			var ts []Term
			for _, l := range a.Leaves {
				ts = append(ts, Select(l, *p.ArrIdx))
			}
			ev, _ := x.unflatten(p.Typ, ts)
			return ev
		}
		return v
	}
	names, leaves := x.placeLeafArrays(p)
	ts := make([]Term, len(names))
	for i, n := range names {
		switch p.Kind {
		case PField, PBox:
			a := x.heapGet(st, n, ArrSort(SInt, leaves[i].Sort))
			ts[i] = Select(a, p.Ref)
		case PElem:
			a := x.heapGet(st, n, ArrSort(SInt, ArrSort(SInt, leaves[i].Sort)))
			ts[i] = Select(Select(a, p.Ref), p.Idx)
		case PGlobal:
			ts[i] = x.heapGet(st, n, leaves[i].Sort)
		}
	}
	v, _ := x.unflatten(p.Typ, ts)
	x.assumeTyped(st, v, p.Typ)
	return v
}

func setPath(v Value, path []int, nv Value) Value {
	if len(path) == 0 {
		return nv
	}
	s := v.(VStruct)
	fs := append([]Value{}, s.Fields...)
	fs[path[0]] = setPath(fs[path[0]], path[1:], nv)
	return VStruct{fs}
}

func (x *Exec) storePlace(st *State, p *Place, v Value) {
	switch p.Kind {
	case PCell:
		if p.ArrIdx != nil {
			cur := st.cells[p.Alloc]
			arrV := cur
			for _, i := range p.Path {
				arrV = arrV.(VStruct).Fields[i]
			}
			a := arrV.(VArr)
			ts := x.flatten(v)
			nl := make([]Term, len(a.Leaves))
			for i := range a.Leaves {
				nl[i] = Store(a.Leaves[i], *p.ArrIdx, ts[i])
			}
			st.cells[p.Alloc] = setPath(cur, p.Path, VArr{nl, a.N})
			return
		}
		if len(p.Path) == 0 {
			st.cells[p.Alloc] = v
		} else {
			st.cells[p.Alloc] = setPath(st.cells[p.Alloc], p.Path, v)
		}
		return
	}
	names, leaves := x.placeLeafArrays(p)
	ts := x.flatten(v)
	if len(ts) != len(names) {
		panic(fmt.Sprintf("store leaf mismatch %d vs %d for %s", len(ts), len(names), p.Typ))
	}
	for i, n := range names {
		switch p.Kind {
		case PField, PBox:
			a := x.heapGet(st, n, ArrSort(SInt, leaves[i].Sort))
			x.heapSet(st, n, x.define("h", Store(a, p.Ref, ts[i])))
		case PElem:
			a := x.heapGet(st, n, ArrSort(SInt, ArrSort(SInt, leaves[i].Sort)))
			x.heapSet(st, n, x.define("h", Store(a, p.Ref, Store(Select(a, p.Ref), p.Idx, ts[i]))))
		case PGlobal:
			x.heapSet(st, n, ts[i])
		}
	}
}

// refOfPtr turns a pointer value into a first-class reference term.
func (x *Exec) refOfPtr(v Value) Term {
	switch v := v.(type) {
	case VScalar:
		return v.T
	case VPtr:
		p := v.P
		switch p.Kind {
		case PField:
			if len(p.Path) == 0 {
				return p.Ref
			}
			// interior pointer: opaque injective address
			name, _ := fieldPathName(p.Root, p.Path)
			fn := "addr." + sanitize(typeName(p.Root)+"."+name)
			if !x.declared[fn] {
				x.declared[fn] = true
				x.decls = append(x.decls, fmt.Sprintf("(declare-fun %s (Int) Int)", fn))
				x.decls = append(x.decls, fmt.Sprintf("(assert (forall ((r Int)) (! (< (%s r) 0) :pattern ((%s r)))))", fn, fn))
			}
			return App(fn, SInt, p.Ref)
		case PBox:
			if len(p.Path) == 0 {
				return p.Ref
			}
		case PElem:
			fn := "addr.elem." + sanitize(typeName(p.Root))
			if !x.declared[fn] {
				x.declared[fn] = true
				x.decls = append(x.decls, fmt.Sprintf("(declare-fun %s (Int Int) Int)", fn))
			}
			return App(fn, SInt, p.Ref, p.Idx)
		case PGlobal:
			return x.declare("addr.global."+sanitize(p.Global.Pkg.Pkg.Path()+"."+p.Global.Name()), SInt)
		}
		panic(unsupported("first-class pointer to local cell or interior location (" + fmt.Sprint(p.Kind) + ")"))
	}
	panic(fmt.Sprintf("refOfPtr %T", v))
}

// ptrPlace turns a pointer value (to type elem) into a place.
func (x *Exec) ptrPlace(v Value, elem types.Type) *Place {
	switch v := v.(type) {
	case VPtr:
		return v.P
	case VScalar:
		if _, ok := elem.Underlying().(*types.Struct); ok {
			return &Place{Kind: PField, Ref: v.T, Root: elem, Typ: elem}
		}
		return &Place{Kind: PBox, Ref: v.T, Root: elem, Typ: elem}
	}
	panic(fmt.Sprintf("ptrPlace %T", v))
}

func (x *Exec) subPlace(p *Place, field int) *Place {
	st := p.Typ.Underlying().(*types.Struct)
	np := *p
	np.Path = append(append([]int{}, p.Path...), field)
	np.Typ = st.Field(field).Type()
	return &np
}

// ---------------------------------------------------------------------------
// typing assumptions

func (x *Exec) assumeTyped(st *State, v Value, t types.Type) {
	switch u := t.Underlying().(type) {
	case *types.Basic:
		if u.Info()&types.IsInteger != 0 {
			if s, ok := v.(VScalar); ok && !isLiteral(s.T) {
				x.assumeLocal(inRange(s.T, t))
			}
		}
	case *types.Pointer, *types.Map, *types.Chan:
		if s, ok := v.(VScalar); ok && !isLiteral(s.T) {
			x.assumeLocal(And(Le(IntLit(0), s.T), Le(s.T, st.wm)))
		}
	case *types.Slice:
		s := v.(VSlice)
		if isLiteral(s.Arr) && isLiteral(s.Len) {
			return
		}
		x.assumeLocal(And(Le(IntLit(0), s.Arr), Le(s.Arr, st.wm), Le(IntLit(0), s.Off), Le(IntLit(0), s.Len), Le(s.Len, s.Cap),
			Le(s.Cap, IntLitStr(memLimit)),
			Implies(Eq(s.Arr, IntLit(0)), Eq(s.Cap, IntLit(0)))))
	case *types.Interface:
		i := v.(VIface)
		if isLiteral(i.Tag) {
			return
		}
		x.assumeLocal(And(Le(IntLit(0), i.Tag), Implies(Eq(i.Tag, IntLit(0)), Eq(i.Box, IntLit(0)))))
	case *types.Struct:
		s := v.(VStruct)
		for i := 0; i < u.NumFields(); i++ {
			x.assumeTyped(st, s.Fields[i], u.Field(i).Type())
		}
	case *types.Tuple:
		s := v.(VTuple)
		for i := 0; i < u.Len(); i++ {
			x.assumeTyped(st, s.Elems[i], u.At(i).Type())
		}
	}
}

// memLimit: no slice, string or map in memory has more than 2^31 elements (a modelling bound on
// existing data; sizes computed from client integers are not covered by it).
const memLimit = "2147483648"

func isLiteral(t Term) bool {
	if t.S == "" {
		return false
	}
	c := t.S[0]
	return (c >= '0' && c <= '9') || strings.HasPrefix(t.S, "(- ")
}

// havocValue makes a fresh value of type t.
func (x *Exec) havocValue(st *State, hint string, t types.Type) Value {
	ls := leavesOf(t)
	ts := make([]Term, len(ls))
	for i, l := range ls {
		ts[i] = x.fresh(joinLeaf(hint, l.Name), l.Sort)
	}
	v, _ := x.unflatten(t, ts)
	x.assumeTyped(st, v, t)
	return v
}

// ---------------------------------------------------------------------------
// strings

func (x *Exec) ensureStrPrelude() {}

func (x *Exec) slen(s Term) Term { return App("slen", SInt, s) }
func (x *Exec) sat(s, i Term) Term {
	return App("sat", SInt, s, i)
}

func (x *Exec) strTerm(v VStr) Term {
	if v.Off.S == "0" && v.Len.S == x.slen(v.Base).S {
		return v.Base
	}
	if v.Off.S == "0" {
		if n, ok := x.litLens[v.Base.S]; ok && v.Len.S == IntLit(int64(n)).S {
			return v.Base // a whole literal
		}
	}
	return App("ssub", SStr, v.Base, v.Off, Add(v.Off, v.Len))
}

func (x *Exec) strLit(s string) VStr {
	if t, ok := x.lits[s]; ok {
		return VStr{t, IntLit(0), IntLit(int64(len(s)))}
	}
	name := fmt.Sprintf("lit%d", len(x.lits))
	if len(s) <= 12 {
		name += "." + sanitize(s)
	}
	t := x.declare(name, SStr)
	x.lits[s] = t
	if x.litLens == nil {
		x.litLens = map[string]int{}
	}
	x.litLens[t.S] = len(s)
	x.litOrder = append(x.litOrder, s)
	x.assume(Eq(x.slen(t), IntLit(int64(len(s)))))
	if len(s) <= 256 {
		for i := 0; i < len(s); i++ {
			x.assume(Eq(x.sat(t, IntLit(int64(i))), IntLit(int64(s[i]))))
		}
	}
	// distinct from every earlier literal with the same length (others differ by length)
	for _, o := range x.litOrder[:len(x.litOrder)-1] {
		if len(o) == len(s) && (len(s) > 256) {
			x.assume(Not(Eq(t, x.lits[o])))
		}
	}
	return VStr{t, IntLit(0), IntLit(int64(len(s)))}
}

func (x *Exec) f64const(txt string) Term {
	name := "f64." + sanitize(txt)
	return x.declare(name, SF64)
}

func (x *Exec) funcID(fn *ssa.Function) Term {
	id, ok := x.funcIDs[fn]
	if !ok {
		id = len(x.funcIDs) + 1
		x.funcIDs[fn] = id
	}
	return IntLit(int64(id))
}

func (x *Exec) typeTag(t types.Type) Term {
	k := typeName(t)
	id, ok := x.typeTags[k]
	if !ok {
		id = len(x.typeTags) + 1
		x.typeTags[k] = id
		x.tagTypes = append(x.tagTypes, t)
	}
	return IntLit(int64(id))
}

// pointer-shaped types are stored directly in the interface box.
func pointerShaped(t types.Type) bool {
	switch t.Underlying().(type) {
	case *types.Pointer, *types.Map, *types.Chan, *types.Signature:
		return true
	}
	return false
}

func (x *Exec) unboxFn(t types.Type, leaf Leaf) string {
	fn := "unbox." + sanitize(typeName(t)) + "." + sanitize(leaf.Name)
	if !x.declared[fn] {
		x.declared[fn] = true
		x.decls = append(x.decls, fmt.Sprintf("(declare-fun %s (Int) %s)", fn, leaf.Sort))
	}
	return fn
}

func (x *Exec) makeIface(st *State, v Value, t types.Type) VIface {
	if _, isI := t.Underlying().(*types.Interface); isI {
		return v.(VIface)
	}
	tag := x.typeTag(t)
	if pointerShaped(t) {
		return VIface{tag, x.flatten(v)[0]}
	}
	ts := x.flatten(v)
	ls := leavesOf(t)
	if len(ls) == 1 && ls[0].Sort == SInt {
		return VIface{tag, ts[0]}
	}
	return VIface{tag, x.mkbox(t, ts)}
}

func (x *Exec) unboxIface(st *State, i VIface, t types.Type) Value {
	if pointerShaped(t) {
		v, _ := x.unflatten(t, []Term{i.Box})
		return v
	}
	ls := leavesOf(t)
	if len(ls) == 1 && ls[0].Sort == SInt {
		v, _ := x.unflatten(t, []Term{i.Box})
		return v
	}
	ts := make([]Term, len(ls))
	for k, l := range ls {
		ts[k] = App(x.unboxFn(t, l), l.Sort, i.Box)
	}
	v, _ := x.unflatten(t, ts)
	x.assumeTyped(st, v, t)
	return v
}

// ---------------------------------------------------------------------------
// frames

type loopInfo struct {
	header   *ssa.BasicBlock
	body     map[*ssa.BasicBlock]bool
	backs    []*ssa.BasicBlock
	lc       *LoopContract
	key      string
	condText string
	// state at head after havoc (for decreases, old-at-head)
	headState *State
	measure0  []Term
	phiVals   map[*ssa.Phi]Value
	autos     []autoInv
	pos       token.Pos
	ordinal   int
	writes    *writeLog
	autosDone bool
	autoMeasure func(x *Exec, fr *Frame, st *State) Term
	frame          *ModSet
	frameWM        Term
	frameNames     []string
	headSnapBefore heapSnap
}

type autoInv struct {
	text string
	f    func(x *Exec, fr *Frame, st *State, li *loopInfo, phi map[*ssa.Phi]Value) Term
}

type retRec struct {
	st  *State
	val Value
}

type Frame struct {
	fn       *ssa.Function
	vals     map[ssa.Value]Value
	incoming map[*ssa.BasicBlock][]edgeIn
	loops    map[*ssa.BasicBlock]*loopInfo
	rets     []retRec
	params   []Value
	freeVars []Value
	top      bool
	entrySt  *State
	defers   []*ssa.Defer
	result   Value
	callPos  token.Pos
	discover *discoverCtx
}

type edgeIn struct {
	st   *State
	from *ssa.BasicBlock
}

func (x *Exec) get(fr *Frame, v ssa.Value) Value {
	switch v := v.(type) {
	case *ssa.Const:
		return x.constValue(v)
	case *ssa.Function:
		return VFunc{Fn: v}
	case *ssa.Global:
		return VPtr{&Place{Kind: PGlobal, Global: v, Root: v.Type().(*types.Pointer).Elem(), Typ: v.Type().(*types.Pointer).Elem()}}
	case *ssa.Builtin:
		panic(unsupported("builtin as value " + v.Name()))
	}
	val, ok := fr.vals[v]
	if !ok {
		panic(fmt.Sprintf("%s: value %s (%T) not computed", fr.fn.Name(), v.Name(), v))
	}
	return val
}

func (x *Exec) constValue(c *ssa.Const) Value {
	t := c.Type()
	if c.Value == nil {
		return x.zeroValue(t)
	}
	switch u := t.Underlying().(type) {
	case *types.Basic:
		switch {
		case u.Info()&types.IsBoolean != 0:
			if constant.BoolVal(c.Value) {
				return VScalar{True}
			}
			return VScalar{False}
		case u.Info()&types.IsInteger != 0:
			return VScalar{IntLitStr(c.Value.ExactString())}
		case u.Info()&types.IsString != 0:
			return x.strLit(constant.StringVal(c.Value))
		case u.Info()&types.IsFloat != 0:
			return VScalar{x.f64lit(c.Value)}
		}
	}
	panic(unsupported("constant of type " + t.String()))
}

func (x *Exec) f64lit(v constant.Value) Term {
	f, _ := constant.Float64Val(v)
	if f == float64(int64(f)) && f > -1e15 && f < 1e15 {
		return App("f64.ofint", SF64, IntLit(int64(f)))
	}
	return x.f64const(v.ExactString())
}

// ---------------------------------------------------------------------------
// running a function body

func (x *Exec) analyzeLoops(fr *Frame) {
	fn := fr.fn
	fr.loops = map[*ssa.BasicBlock]*loopInfo{}
	for _, b := range fn.Blocks {
		for _, s := range b.Succs {
			if s.Dominates(b) {
				li := fr.loops[s]
				if li == nil {
					li = &loopInfo{header: s, body: map[*ssa.BasicBlock]bool{s: true}}
					fr.loops[s] = li
				}
				li.backs = append(li.backs, b)
				// natural loop body
				var stack []*ssa.BasicBlock
				if !li.body[b] {
					li.body[b] = true
					stack = append(stack, b)
				}
				for len(stack) > 0 {
					n := stack[len(stack)-1]
					stack = stack[:len(stack)-1]
					for _, p := range n.Preds {
						if !li.body[p] {
							li.body[p] = true
							stack = append(stack, p)
						}
					}
				}
			}
		}
	}
	// loop keys: source text of the for/range statement's condition
	file := x.P.fileOf(fn)
	var headers []*ssa.BasicBlock
	for h := range fr.loops {
		headers = append(headers, h)
	}
	sort.Slice(headers, func(i, j int) bool { return headers[i].Index < headers[j].Index })
	type lk struct {
		li  *loopInfo
		pos token.Pos
	}
	var lks []lk
	// inner loops first, so that a loop whose header carries the position of an inner statement
	// (e.g. "for { for k := range m {" ) is paired with the next enclosing statement
	sort.SliceStable(headers, func(i, j int) bool { return len(fr.loops[headers[i]].body) < len(fr.loops[headers[j]].body) })
	claimed := map[ast.Node]bool{}
	for _, h := range headers {
		li := fr.loops[h]
		pos := token.NoPos
		// first positioned instruction in header or body
		for _, ins := range h.Instrs {
			if ins.Pos().IsValid() {
				pos = ins.Pos()
				break
			}
			if d, ok := ins.(*ssa.DebugRef); ok && d.Expr != nil {
				pos = d.Expr.Pos()
				break
			}
		}
		if !pos.IsValid() {
			// headers of range loops carry no position: use the first positioned instruction of the body,
			// then pick the innermost enclosing loop statement that starts before it
			var bs []*ssa.BasicBlock
			for b := range li.body {
				bs = append(bs, b)
			}
			sort.Slice(bs, func(i, j int) bool { return bs[i].Index < bs[j].Index })
			for _, b := range bs {
				if b == h {
					continue
				}
				for _, ins := range b.Instrs {
					if ins.Pos().IsValid() {
						pos = ins.Pos()
						break
					}
				}
				if pos.IsValid() {
					break
				}
			}
		}
		li.pos = pos
		if file != nil && pos.IsValid() {
			path, _ := astutil.PathEnclosingInterval(file, pos, pos)
			for _, n := range path {
				if claimed[n] {
					continue
				}
				switch n := n.(type) {
				case *ast.ForStmt:
					claimed[n] = true
					if n.Cond != nil {
						li.condText = compactSpaces(x.P.srcText(n.Cond.Pos(), n.Cond.End()))
					} else {
						li.condText = "for"
					}
					li.pos = n.Pos()
				case *ast.RangeStmt:
					claimed[n] = true
					kv := ""
					if n.Key != nil {
						kv = x.P.srcText(n.Key.Pos(), n.Key.End())
						if n.Value != nil {
							kv += ", " + x.P.srcText(n.Value.Pos(), n.Value.End())
						}
						kv += " " + n.Tok.String() + " "
					}
					li.condText = compactSpaces(kv + "range " + x.P.srcText(n.X.Pos(), n.X.End()))
					li.pos = n.Pos()
				default:
					continue
				}
				break
			}
		}
		lks = append(lks, lk{li, li.pos})
	}
	sort.Slice(lks, func(i, j int) bool { return lks[i].pos < lks[j].pos })
	seen := map[string]int{}
	for i, k := range lks {
		k.li.ordinal = i + 1
		seen[k.li.condText]++
		k.li.key = k.li.condText
		if seen[k.li.condText] > 1 {
			k.li.key = fmt.Sprintf("%s#%d", k.li.condText, seen[k.li.condText])
		}
	}
	// attach contracts
	fc := x.C.Funcs[x.P.funcKey(fn)]
	if fc != nil {
		for _, lc := range fc.Loops {
			for _, k := range lks {
				if lc.Key == k.li.key || lc.Key == fmt.Sprintf("#%d", k.li.ordinal) || (lc.Key == k.li.condText && seen[k.li.condText] == 1) {
					k.li.lc = lc
					lc.used = true
				}
			}
		}
		// a loop contract whose key text no longer matches (the loop header was edited) is paired with the
		// only loop left without a contract, if that pairing is unambiguous
		var freeC []*LoopContract
		for _, lc := range fc.Loops {
			if !lc.used {
				freeC = append(freeC, lc)
			}
		}
		var freeL []*loopInfo
		for _, k := range lks {
			if k.li.lc == nil {
				freeL = append(freeL, k.li)
			}
		}
		if len(freeC) == 1 && len(freeL) == 1 {
			freeL[0].lc = freeC[0]
			freeC[0].used = true
		}
		// template invariants hold at every loop of the function
		if len(fc.AllLoops) > 0 && fn == x.fn {
			for _, k := range lks {
				if k.li.lc == nil {
					k.li.lc = &LoopContract{Key: k.li.key, used: true}
				}
				if !k.li.lc.templated {
					k.li.lc.templated = true
					k.li.lc.Invariants = append(append([]*Clause{}, k.li.lc.Invariants...), fc.AllLoops...)
				}
			}
		}
	}
}

func compactSpaces(s string) string { return strings.Join(strings.Fields(s), " ") }

// execBody runs fn from state st with the given arguments; returns the merged exit state and result.
func (x *Exec) execBody(fn *ssa.Function, st *State, args []Value, bindings []Value, top bool) (*State, Value) {
	if len(fn.Blocks) == 0 {
		panic(unsupported("no body for " + fn.String()))
	}
	fr := &Frame{fn: fn, vals: map[ssa.Value]Value{}, incoming: map[*ssa.BasicBlock][]edgeIn{}, top: top, params: args}
	for i, p := range fn.Params {
		fr.vals[p] = args[i]
	}
	for i, fv := range fn.FreeVars {
		fr.vals[fv] = bindings[i]
	}
	x.analyzeLoops(fr)
	fr.entrySt = st
	if top && x.entryWM.S == "" {
		x.entryWM = st.wm
	}
	// order: reverse postorder ignoring back edges
	var order []*ssa.BasicBlock
	visited := map[*ssa.BasicBlock]bool{}
	var dfs func(b *ssa.BasicBlock)
	dfs = func(b *ssa.BasicBlock) {
		visited[b] = true
		for _, s := range b.Succs {
			if !visited[s] && !s.Dominates(b) {
				dfs(s)
			} else if !visited[s] && s.Dominates(b) {
				// back edge to an unvisited header cannot happen (header dominates)
			}
		}
		order = append(order, b)
	}
	dfs(fn.Blocks[0])
	for i, j := 0, len(order)-1; i < j; i, j = i+1, j-1 {
		order[i], order[j] = order[j], order[i]
	}
	// reverse postorder of a DFS that skips back edges is a topological order of the remaining DAG
	fr.incoming[fn.Blocks[0]] = []edgeIn{{st, nil}}
	if top {
		x.auxFrames = append(x.auxFrames, fr)
	}
	for _, b := range order {
		ins := fr.incoming[b]
		if len(ins) == 0 {
			continue
		}
		cur := x.mergeIncoming(fr, b, ins)
		if li := fr.loops[b]; li != nil {
			x.loopHead(fr, li, cur, ins)
		}
		x.execBlock(fr, b, cur)
	}
	// merge returns
	if len(fr.rets) == 0 {
		// function never returns (all paths panic / loop forever): dead state
		dead := st.clone()
		dead.pc = False
		var rv Value
		if fn.Signature.Results().Len() > 0 {
			rv = x.havocValue(dead, "ret", resultType(fn))
		}
		return dead, rv
	}
	var ins []edgeIn
	for _, r := range fr.rets {
		ins = append(ins, edgeIn{r.st, nil})
	}
	out := x.mergeStates(ins)
	var rv Value
	if fn.Signature.Results().Len() > 0 {
		vals := make([]Value, len(fr.rets))
		for i, r := range fr.rets {
			vals[i] = r.val
		}
		pcs := make([]Term, len(fr.rets))
		for i, r := range fr.rets {
			pcs[i] = r.st.pc
		}
		rv = x.mergeValues(pcs, vals, "ret")
	}
	return out, rv
}

func resultType(fn *ssa.Function) types.Type {
	r := fn.Signature.Results()
	if r.Len() == 1 {
		return r.At(0).Type()
	}
	return r
}

// rawTerms / rebuild: structural access to a value's terms (VStr keeps its triple).
func rawTerms(v Value) ([]Term, bool) {
	switch v := v.(type) {
	case VScalar:
		return []Term{v.T}, true
	case VStr:
		return []Term{v.Base, v.Off, v.Len}, true
	case VSlice:
		return []Term{v.Arr, v.Off, v.Len, v.Cap}, true
	case VIface:
		return []Term{v.Tag, v.Box}, true
	case VStruct:
		var out []Term
		for _, f := range v.Fields {
			t, ok := rawTerms(f)
			if !ok {
				return nil, false
			}
			out = append(out, t...)
		}
		return out, true
	case VTuple:
		var out []Term
		for _, f := range v.Elems {
			t, ok := rawTerms(f)
			if !ok {
				return nil, false
			}
			out = append(out, t...)
		}
		return out, true
	case VArr:
		return v.Leaves, true
	case VSet:
		return []Term{v.T}, true
	case VMMap:
		return append([]Term{v.Dom}, v.Vals...), true
	case VSeq:
		return append(append([]Term{}, v.Arrs...), v.Len), true
	}
	return nil, false
}

func rebuild(like Value, ts []Term) (Value, []Term) {
	switch v := like.(type) {
	case VScalar:
		return VScalar{ts[0]}, ts[1:]
	case VStr:
		return VStr{ts[0], ts[1], ts[2]}, ts[3:]
	case VSlice:
		return VSlice{ts[0], ts[1], ts[2], ts[3]}, ts[4:]
	case VIface:
		return VIface{ts[0], ts[1]}, ts[2:]
	case VStruct:
		fs := make([]Value, len(v.Fields))
		for i, f := range v.Fields {
			fs[i], ts = rebuild(f, ts)
		}
		return VStruct{fs}, ts
	case VTuple:
		fs := make([]Value, len(v.Elems))
		for i, f := range v.Elems {
			fs[i], ts = rebuild(f, ts)
		}
		return VTuple{fs}, ts
	case VArr:
		n := len(v.Leaves)
		return VArr{append([]Term{}, ts[:n]...), v.N}, ts[n:]
	case VSet:
		return VSet{ts[0]}, ts[1:]
	case VMMap:
		n := len(v.Vals)
		return VMMap{ts[0], append([]Term{}, ts[1:1+n]...)}, ts[1+n:]
	case VSeq:
		n := len(v.Arrs)
		return VSeq{append([]Term{}, ts[:n]...), ts[n]}, ts[n+1:]
	}
	panic(fmt.Sprintf("rebuild %T", like))
}

func samePlace(a, b *Place) bool {
	if a == b {
		return true
	}
	if a.Kind != b.Kind || a.Alloc != b.Alloc || a.Global != b.Global || a.Ref.S != b.Ref.S || a.Idx.S != b.Idx.S || len(a.Path) != len(b.Path) {
		return false
	}
	for i := range a.Path {
		if a.Path[i] != b.Path[i] {
			return false
		}
	}
	if (a.ArrIdx == nil) != (b.ArrIdx == nil) || (a.ArrIdx != nil && a.ArrIdx.S != b.ArrIdx.S) {
		return false
	}
	return true
}

// normNested replaces place pointers and function values nested in structs and tuples by their reference terms.
func (x *Exec) normNested(v Value) Value {
	switch v := v.(type) {
	case VPtr:
		return VScalar{x.refOfPtr(v)}
	case VFunc:
		if len(v.Bindings) == 0 {
			return VScalar{x.funcID(v.Fn)}
		}
		return VScalar{x.flatten(v)[0]}
	case VStruct:
		fs := make([]Value, len(v.Fields))
		for i, f := range v.Fields {
			fs[i] = x.normNested(f)
		}
		return VStruct{fs}
	case VTuple:
		fs := make([]Value, len(v.Elems))
		for i, f := range v.Elems {
			fs[i] = x.normNested(f)
		}
		return VTuple{fs}
	}
	return v
}

// mergeValues merges values arriving under mutually exclusive conditions.
func (x *Exec) mergeValues(conds []Term, vals []Value, hint string) Value {
	if len(vals) == 1 {
		return vals[0]
	}
	// pointers to places
	if p0, ok := vals[0].(VPtr); ok {
		same := true
		for _, v := range vals[1:] {
			p, ok := v.(VPtr)
			if !ok || !samePlace(p0.P, p.P) {
				same = false
			}
		}
		if same {
			return vals[0]
		}
		// try as refs
		var vs []Value
		for _, v := range vals {
			vs = append(vs, VScalar{x.refOfPtr(v)})
		}
		return x.mergeValues(conds, vs, hint)
	}
	if f0, ok := vals[0].(VFunc); ok {
		same := true
		for _, v := range vals[1:] {
			f, ok := v.(VFunc)
			if !ok || f.Fn != f0.Fn {
				same = false
			}
		}
		if same && len(f0.Bindings) == 0 {
			return vals[0]
		}
		var vs []Value
		for _, v := range vals {
			vs = append(vs, VScalar{x.flatten(v)[0]})
		}
		return x.mergeValues(conds, vs, hint)
	}
	// mixed VPtr / VScalar pointers
	for i, v := range vals {
		if _, ok := v.(VPtr); ok {
			vals = append([]Value{}, vals...)
			vals[i] = VScalar{x.refOfPtr(v)}
		}
		if f, ok := v.(VFunc); ok {
			vals = append([]Value{}, vals...)
			vals[i] = VScalar{x.funcID(f.Fn)}
		}
	}
	t0, ok := rawTerms(vals[0])
	if !ok {
		// pointers or function values nested in a struct: merge them as references
		vals = append([]Value{}, vals...)
		for i := range vals {
			vals[i] = x.normNested(vals[i])
		}
		t0, ok = rawTerms(vals[0])
	}
	if !ok {
		panic(unsupported(fmt.Sprintf("merge of %T", vals[0])))
	}
	all := make([][]Term, len(vals))
	all[0] = t0
	for i := 1; i < len(vals); i++ {
		ti, ok := rawTerms(vals[i])
		if !ok || len(ti) != len(t0) {
			// shape mismatch (e.g. VStr vs canonical): canonicalise via flatten
			panic(unsupported(fmt.Sprintf("merge shape mismatch %T / %T", vals[0], vals[i])))
		}
		all[i] = ti
	}
	out := make([]Term, len(t0))
	for k := range t0 {
		same := true
		for i := 1; i < len(vals); i++ {
			if all[i][k].S != t0[k].S {
				same = false
			}
		}
		if same {
			out[k] = t0[k]
			continue
		}
		c := x.fresh(hint, t0[k].Sort)
		for i := range vals {
			x.assume(Implies(conds[i], Eq(c, all[i][k])))
		}
		out[k] = c
	}
	v, _ := rebuild(vals[0], out)
	return v
}

func (x *Exec) mergeStates(ins []edgeIn) *State {
	if len(ins) == 1 {
		return ins[0].st.clone()
	}
	conds := make([]Term, len(ins))
	for i, in := range ins {
		conds[i] = in.st.pc
	}
	out := &State{cells: map[*ssa.Alloc]Value{}, heap: map[string]Term{}, ghost: map[string]Value{}}
	pc := x.fresh("pc", SBool)
	x.assume(Eq(pc, Or(conds...)))
	out.pc = pc
	// cells
	keys := map[*ssa.Alloc]bool{}
	for _, in := range ins {
		for k := range in.st.cells {
			keys[k] = true
		}
	}
	for _, k := range sortedAllocs(keys) {
		var cs []Term
		var vs []Value
		for i, in := range ins {
			if v, ok := in.st.cells[k]; ok {
				cs = append(cs, conds[i])
				vs = append(vs, v)
			}
		}
		out.cells[k] = x.mergeValues(cs, vs, cellHint(k))
	}
	gkeys := map[string]bool{}
	for _, in := range ins {
		for k := range in.st.ghost {
			gkeys[k] = true
		}
	}
	for _, k := range sortedStrings(gkeys) {
		var cs []Term
		var vs []Value
		for i, in := range ins {
			if v, ok := in.st.ghost[k]; ok {
				cs = append(cs, conds[i])
				vs = append(vs, v)
			}
		}
		out.ghost[k] = x.mergeValues(cs, vs, "g."+k)
	}
	// wm
	wms := make([]Value, len(ins))
	for i, in := range ins {
		wms[i] = VScalar{in.st.wm}
	}
	out.wm = x.mergeValues(conds, wms, "wm").(VScalar).T
	// heap
	sameHeap := true
	for _, in := range ins[1:] {
		if in.st.epoch != ins[0].st.epoch || len(in.st.heap) != len(ins[0].st.heap) {
			sameHeap = false
			break
		}
		for k, v := range in.st.heap {
			if o, ok := ins[0].st.heap[k]; !ok || o.S != v.S {
				sameHeap = false
			}
		}
	}
	if sameHeap {
		out.epoch = ins[0].st.epoch
		for k, v := range ins[0].st.heap {
			out.heap[k] = v
		}
	} else {
		e := x.newEpoch(1)
		for i, in := range ins {
			e.parents = append(e.parents, in.st.snap())
			e.conds = append(e.conds, conds[i])
		}
		out.epoch = e
	}
	return out
}

// deterministic iteration orders (the text of a verification condition must not depend on Go's map order)
func sortedAllocs(m map[*ssa.Alloc]bool) []*ssa.Alloc {
	out := make([]*ssa.Alloc, 0, len(m))
	for k := range m {
		out = append(out, k)
	}
	sort.Slice(out, func(i, j int) bool {
		if out[i].Pos() != out[j].Pos() {
			return out[i].Pos() < out[j].Pos()
		}
		if out[i].Name() != out[j].Name() {
			return out[i].Name() < out[j].Name()
		}
		return out[i].Comment < out[j].Comment
	})
	return out
}

func (x *Exec) sortedHeapNames() []string {
	out := make([]string, 0, len(x.heapSorts))
	for k := range x.heapSorts {
		out = append(out, k)
	}
	sort.Strings(out)
	return out
}

func sortedStrings(m map[string]bool) []string {
	out := make([]string, 0, len(m))
	for k := range m {
		out = append(out, k)
	}
	sort.Strings(out)
	return out
}

func cellHint(a *ssa.Alloc) string {
	if a.Comment != "" {
		return a.Comment
	}
	return a.Name()
}

func (x *Exec) mergeIncoming(fr *Frame, b *ssa.BasicBlock, ins []edgeIn) *State {
	st := x.mergeStates(ins)
	// phis
	for _, instr := range b.Instrs {
		phi, ok := instr.(*ssa.Phi)
		if !ok {
			continue
		}
		if li := fr.loops[b]; li != nil {
			continue // handled in loopHead
		}
		var cs []Term
		var vs []Value
		for _, in := range ins {
			for pi, pred := range b.Preds {
				if pred == in.from {
					cs = append(cs, in.st.pc)
					vs = append(vs, x.get(fr, phi.Edges[pi]))
					break
				}
			}
		}
		fr.vals[phi] = x.mergeValues(cs, vs, "phi")
	}
	return st
}

func (x *Exec) execBlock(fr *Frame, b *ssa.BasicBlock, st *State) {
	for _, instr := range b.Instrs {
		if st.pc.S == "false" {
			return
		}
		switch ins := instr.(type) {
		case *ssa.If:
			c := x.get(fr, ins.Cond).(VScalar).T
			t := st.clone()
			t.pc = x.andPC(st.pc, c)
			f := st
			f.pc = x.andPC(st.pc, Not(c))
			x.edge(fr, b, b.Succs[0], t)
			x.edge(fr, b, b.Succs[1], f)
			return
		case *ssa.Jump:
			x.edge(fr, b, b.Succs[0], st)
			return
		case *ssa.Return:
			var rv Value
			switch len(ins.Results) {
			case 0:
			case 1:
				rv = x.get(fr, ins.Results[0])
			default:
				var es []Value
				for _, r := range ins.Results {
					es = append(es, x.get(fr, r))
				}
				rv = VTuple{es}
			}
			fr.rets = append(fr.rets, retRec{st, rv})
			if fr.top && x.discovering == 0 {
				x.retInfos = append(x.retInfos, retInfo{st.pc, ins.Pos()})
			}
			return
		case *ssa.Panic:
			x.explicitPanic(fr, st, ins.Pos(), "panic")
			return
		default:
			x.execInstr(fr, st, instr)
		}
	}
}

func (x *Exec) explicitPanic(fr *Frame, st *State, pos token.Pos, what string) {
	fc := x.C.Funcs[x.P.funcKey(fr.fn)]
	if fc != nil && fc.Flags["panics_allowed"] {
		st.pc = False
		return
	}
	if fc != nil && fc.PanicsWhen != nil {
		x.stopCheck(fr, st, fc, pos, "explicit-panic")
		st.pc = False
		return
	}
	if !x.opts.NoPanicObls {
		x.check(st, "explicit-panic", nil, pos, x.srcAt(pos), False)
	}
	st.pc = False
}

// stopCheck: in a function declared "panics when <cond>", reaching a panic or a call that does not return is an
// obligation that <cond> holds in the state reached.
func (x *Exec) stopCheck(fr *Frame, st *State, fc *FuncContract, pos token.Pos, kind string) {
	env := &SpecEnv{x: x, st: st, old: fr.entrySt, vars: map[string]SVal{}, fr: fr}
	if fr.fn.Pkg != nil {
		env.pkg = fr.fn.Pkg.Pkg
	} else if o := fr.fn.Origin(); o != nil && o.Pkg != nil {
		env.pkg = o.Pkg.Pkg
	}
	g := x.safeEvalBool(env, fc.PanicsWhen, x.P.funcKey(fr.fn))
	x.check(st, kind, fc.PanicsWhen.Tags, pos, x.srcAt(pos)+": allowed only when "+fc.PanicsWhen.Text, g)
}

func (x *Exec) edge(fr *Frame, from, to *ssa.BasicBlock, st *State) {
	if st.pc.S == "false" {
		return
	}
	if li := fr.loops[to]; li != nil && to.Dominates(from) {
		x.backEdge(fr, li, from, st)
		return
	}
	fr.incoming[to] = append(fr.incoming[to], edgeIn{st, from})
}

func hasQuant(t Term) bool {
	return strings.Contains(t.S, "(forall ") || strings.Contains(t.S, "(exists ") || strings.Contains(t.S, "(lambda ")
}

// mkbox: the box of a multi-word value stored in an interface is an injective constructor term
// (deterministic, so a contract and the code build the same term for the same value).
func (x *Exec) mkbox(t types.Type, ts []Term) Term {
	ls := leavesOf(t)
	fn := "mkbox." + sanitize(typeName(t))
	if !x.declared[fn] {
		x.declared[fn] = true
		var sorts, vars, args []string
		for i, l := range ls {
			sorts = append(sorts, string(l.Sort))
			vars = append(vars, fmt.Sprintf("(v%d %s)", i, l.Sort))
			args = append(args, fmt.Sprintf("v%d", i))
		}
		x.decls = append(x.decls, fmt.Sprintf("(declare-fun %s (%s) Int)", fn, strings.Join(sorts, " ")))
		app := "(" + fn + " " + strings.Join(args, " ") + ")"
		for i, l := range ls {
			ub := x.unboxFn(t, l)
			x.decls = append(x.decls, fmt.Sprintf("(assert (forall (%s) (! (= (%s %s) v%d) :pattern (%s))))", strings.Join(vars, " "), ub, app, i, app))
		}
	}
	return App(fn, SInt, ts...)
}

// flattenAnd splits nested top-level conjunctions of an SMT term.
func flattenAnd(t Term) []Term {
	sx := parseSexprs(t.S)
	if len(sx) != 1 {
		return []Term{t}
	}
	var out []Term
	var walk func(n *sexpr)
	walk = func(n *sexpr) {
		if n.isL && len(n.list) > 0 && !n.list[0].isL && n.list[0].atom == "and" {
			for _, c := range n.list[1:] {
				walk(c)
			}
			return
		}
		out = append(out, Term{n.String(), SBool})
	}
	walk(sx[0])
	return out
}

// constArray: an array holding v everywhere. Solvers only accept (as const ...) over values, so for
// non-literal v (string constants, ...) a declared array with a defining axiom is used instead.
func (x *Exec) constArray(idx Sort, v Term) Term {
	s := ArrSort(idx, v.Sort)
	if v.S == "true" || v.S == "false" || isLiteral(v) {
		return App("(as const "+string(s)+")", s, v)
	}
	name := "constarr." + sanitize(string(idx)) + "." + sanitize(v.S)
	if len(name) > 80 {
		name = fmt.Sprintf("constarr.%d", fnvHash(name))
	}
	if !x.declared[name] {
		x.declared[name] = true
		x.decls = append(x.decls, fmt.Sprintf("(declare-fun %s () %s)", name, s))
		x.decls = append(x.decls, fmt.Sprintf("(assert (forall ((i %s)) (! (= (select %s i) %s) :pattern ((select %s i)))))", idx, name, v.S, name))
	}
	return Term{name, s}
}
