package main

// Which heap arrays can a call allocate in? A contract's "allocates" used to give every heap array a new name after
// the call (with an axiom "unchanged at the objects that existed before"), also the arrays of types the callee cannot
// possibly allocate. allocInfo is a static over-approximation, computed from the SSA of the callee and of everything
// it can reach, of the kinds of objects the call may allocate; arrays of other kinds keep their name across the call.
//
// Sound because it is computed from the code that runs (not from the contract): every allocation site the executor
// models (Alloc on the heap, MakeMap, MakeChan, MakeSlice, append, []byte(string)) is collected with the array-name
// prefix the executor uses for it; a call whose target is not known statically makes the answer "anything"; a callee
// outside the verified packages is assumed to allocate only objects whose type does not mention a type of a verified
// package (it cannot name them), unless it is handed a function value, whose body is then followed.

import (
	"go/types"
	"strings"

	"golang.org/x/tools/go/ssa"
)

type allocInfo struct {
	any bool            // unknown callee somewhere: anything may be allocated
	lib bool            // code outside the verified packages runs: objects of types not of those packages
	pre map[string]bool // array-name prefixes of the object kinds allocated by verified-scope code
}

var allocAny = &allocInfo{any: true}
var allocLib = &allocInfo{lib: true}

func (a *allocInfo) mayAlloc(name string) bool {
	if a == nil || a.any {
		return true
	}
	if a.lib && !scopeArray(name) {
		return true
	}
	for p := range a.pre {
		if strings.HasPrefix(name, p) {
			return true
		}
	}
	return false
}

var scopeMarks []string

// scopeArray: the array belongs to objects whose type mentions a named type of a verified package.
func scopeArray(name string) bool {
	if scopeMarks == nil {
		for _, p := range scopePkgs {
			scopeMarks = append(scopeMarks, strings.TrimPrefix(p, mainMod+"/")+".")
		}
	}
	for _, m := range scopeMarks {
		if strings.Contains(name, m) {
			return true
		}
	}
	return false
}

func (P *Program) inScope(fn *ssa.Function) bool {
	var pk *types.Package
	if fn.Pkg != nil {
		pk = fn.Pkg.Pkg
	} else if o := fn.Origin(); o != nil && o.Pkg != nil {
		pk = o.Pkg.Pkg
	} else if fn.Parent() != nil {
		return P.inScope(fn.Parent())
	}
	if pk == nil {
		return false
	}
	_, ok := P.Short[pk.Path()]
	return ok
}

// allocSetOf: what a call of fn may allocate (memoised per program).
func (P *Program) allocSetOf(fn *ssa.Function) *allocInfo {
	if P.allocMemo == nil {
		P.allocMemo = map[*ssa.Function]*allocInfo{}
	}
	if a, ok := P.allocMemo[fn]; ok {
		return a
	}
	a := &allocInfo{pre: map[string]bool{}}
	seen := map[*ssa.Function]bool{}
	var visit func(f *ssa.Function)
	visit = func(f *ssa.Function) {
		if f == nil || seen[f] || a.any {
			return
		}
		seen[f] = true
		if len(f.Blocks) == 0 || !P.inScope(f) {
			a.lib = true
			return
		}
		for _, b := range f.Blocks {
			for _, ins := range b.Instrs {
				switch ins := ins.(type) {
				case *ssa.Alloc:
					if !ins.Heap {
						continue
					}
					elem := ins.Type().(*types.Pointer).Elem()
					P.allocKinds(a, elem)
				case *ssa.MakeMap:
					mt := ins.Type().Underlying().(*types.Map)
					a.pre["M|"+typeName(mt.Key())+">"+typeName(mt.Elem())+"|"] = true
				case *ssa.MakeChan:
					a.pre["C|"] = true
				case *ssa.MakeSlice:
					a.pre["E|"+typeName(ins.Type().Underlying().(*types.Slice).Elem())+"|"] = true
				case *ssa.Convert:
					if _, ok := ins.Type().Underlying().(*types.Slice); ok {
						a.pre["E|"+typeName(ins.Type().Underlying().(*types.Slice).Elem())+"|"] = true
					}
				case *ssa.MakeClosure:
					visit(ins.Fn.(*ssa.Function))
				case ssa.CallInstruction:
					cc := ins.Common()
					if bi, ok := cc.Value.(*ssa.Builtin); ok {
						if bi.Name() == "append" && len(cc.Args) > 0 {
							if st, ok := cc.Args[0].Type().Underlying().(*types.Slice); ok {
								a.pre["E|"+typeName(st.Elem())+"|"] = true
							}
						}
						continue
					}
					if cc.IsInvoke() {
						// interface method: an interface of a verified package may be implemented by verified code
						if n, ok := cc.Value.Type().(*types.Named); ok && n.Obj().Pkg() != nil {
							if _, in := P.Short[n.Obj().Pkg().Path()]; !in {
								a.lib = true
								P.followFuncArgs(a, cc, visit)
								continue
							}
						}
						if _, isErr := cc.Value.Type().Underlying().(*types.Interface); isErr && cc.Value.Type().String() == "error" {
							a.lib = true
							continue
						}
						a.any = true
						return
					}
					callee := cc.StaticCallee()
					if callee == nil {
						if mc, ok := cc.Value.(*ssa.MakeClosure); ok {
							visit(mc.Fn.(*ssa.Function))
							continue
						}
						a.any = true
						return
					}
					visit(callee)
					if !P.inScope(callee) || len(callee.Blocks) == 0 {
						P.followFuncArgs(a, cc, visit)
					}
				}
			}
		}
	}
	visit(fn)
	if a.any {
		a = allocAny
	}
	P.allocMemo[fn] = a
	return a
}

// followFuncArgs: function values handed to code outside the verified packages may be called there.
func (P *Program) followFuncArgs(a *allocInfo, cc *ssa.CallCommon, visit func(*ssa.Function)) {
	for _, arg := range cc.Args {
		if _, ok := arg.Type().Underlying().(*types.Signature); !ok {
			continue
		}
		switch v := arg.(type) {
		case *ssa.MakeClosure:
			visit(v.Fn.(*ssa.Function))
		case *ssa.Function:
			visit(v)
		default:
			a.any = true
		}
	}
}

// allocKinds: the array-name prefixes the executor uses for a heap object of type elem.
func (P *Program) allocKinds(a *allocInfo, elem types.Type) {
	if _, ok := elem.Underlying().(*types.Struct); ok {
		a.pre["F|"+typeName(elem)+"|"] = true
		if n, ok := elem.(*types.Named); ok && n.Obj().Pkg() != nil {
			short := P.Short[n.Obj().Pkg().Path()]
			a.pre["G|"+short+"."+n.Obj().Name()+"."] = true
		}
		return
	}
	a.pre["B|"+typeName(elem)] = true
	if at, ok := elem.Underlying().(*types.Array); ok {
		a.pre["E|"+typeName(at.Elem())+"|"] = true
	}
}
