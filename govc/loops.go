package main

// Loop cutting: invariants, havoc of the loop's write set, decreases.

import (
	"fmt"
	"go/token"
	"go/types"
	"sort"
	"strings"

	"golang.org/x/tools/go/ssa"
)

// writeLog records what a region of code may write (used to compute loop havoc sets).
type writeLog struct {
	cells  map[*ssa.Alloc]bool
	heap   map[string]bool
	ghost  map[string]bool
	all    bool
	allocs bool
}

func newWriteLog() *writeLog {
	return &writeLog{cells: map[*ssa.Alloc]bool{}, heap: map[string]bool{}, ghost: map[string]bool{}}
}

// discoverWrites runs the loop body once (obligations and assumptions discarded) and
// returns the set of locations it may write.
func (x *Exec) discoverWrites(fr *Frame, li *loopInfo, head *State) *writeLog {
	// save emission state
	nAs, nOb := len(x.asserts), len(x.obls)
	occ := map[string]int{}
	for k, v := range x.occ {
		occ[k] = v
	}
	savedOpts := x.opts
	x.opts.NoPanicObls = true
	x.discovering++
	savedTrusted := x.trusted
	x.trusted = map[string]bool{}
	for k, v := range savedTrusted {
		x.trusted[k] = v
	}
	savedGT := map[string]*SType{}
	for k, v := range ghostTypes {
		savedGT[k] = v
	}

	st := head.clone()
	// fresh root epoch so that no pre-existing epoch memo is polluted
	st.epoch = x.newEpoch(0)
	st.heap = map[string]Term{}
	// sub-frame
	sf := &Frame{fn: fr.fn, vals: map[ssa.Value]Value{}, incoming: map[*ssa.BasicBlock][]edgeIn{}, loops: fr.loops, params: fr.params, entrySt: fr.entrySt, defers: fr.defers}
	for k, v := range fr.vals {
		sf.vals[k] = v
	}
	for _, instr := range li.header.Instrs {
		if phi, ok := instr.(*ssa.Phi); ok {
			sf.vals[phi] = x.havocValue(st, "phi", phi.Type())
		}
	}
	log := newWriteLog()
	base := st.clone()
	sf.discover = &discoverCtx{li: li, log: log}
	var order []*ssa.BasicBlock
	for b := range li.body {
		order = append(order, b)
	}
	// topological order within the body = by the function-level order position
	pos := x.blockOrder(fr.fn)
	sort.Slice(order, func(i, j int) bool { return pos[order[i]] < pos[order[j]] })
	sf.incoming[li.header] = []edgeIn{{st, nil}}
	var finals []*State
	sf.discover.finals = &finals
	func() {
		defer func() {
			if r := recover(); r != nil {
				x.discovering--
				x.asserts = x.asserts[:nAs]
				x.obls = x.obls[:nOb]
				x.occ = occ
				x.opts = savedOpts
				x.trusted = savedTrusted
				panic(r)
			}
		}()
		for _, b := range order {
			ins := sf.incoming[b]
			if len(ins) == 0 {
				continue
			}
			var cur *State
			if b == li.header {
				cur = ins[0].st
			} else {
				cur = x.mergeIncoming(sf, b, ins)
				if inner := sf.loops[b]; inner != nil && inner != li {
					x.loopHead(sf, inner, cur, ins)
				}
			}
			x.execBlock(sf, b, cur)
		}
	}()
	// collect differences
	for _, f := range finals {
		for a, v := range f.cells {
			if bv, ok := base.cells[a]; !ok {
				// declared inside the loop: not loop-carried
				_ = bv
			} else if !sameValue(v, bv) {
				log.cells[a] = true
			}
		}
		for k, v := range f.ghost {
			if bv, ok := base.ghost[k]; !ok || !sameValue(v, bv) {
				log.ghost[k] = true
			}
		}
		// heap: walk epochs back to the base epoch
		x.collectHeapWrites(f, base.epoch, log)
		if f.wm.S != base.wm.S {
			log.allocs = true
		}
	}
	x.discovering--
	x.asserts = x.asserts[:nAs]
	x.obls = x.obls[:nOb]
	x.occ = occ
	x.opts = savedOpts
	x.trusted = savedTrusted
	for k := range ghostTypes {
		if _, ok := savedGT[k]; !ok {
			// keep types learned in discovery (needed when invariants mention ghosts)
		}
	}
	return log
}

type discoverCtx struct {
	li     *loopInfo
	log    *writeLog
	finals *[]*State
}

func sameValue(a, b Value) bool {
	if pa, ok := a.(VPtr); ok {
		pb, ok := b.(VPtr)
		return ok && samePlace(pa.P, pb.P)
	}
	if fa, ok := a.(VFunc); ok {
		fb, ok := b.(VFunc)
		return ok && fa.Fn == fb.Fn
	}
	ta, ok1 := rawTerms(a)
	tb, ok2 := rawTerms(b)
	if !ok1 || !ok2 || len(ta) != len(tb) {
		return false
	}
	for i := range ta {
		if ta[i].S != tb[i].S {
			return false
		}
	}
	return true
}

func (x *Exec) collectHeapWrites(f *State, base *Epoch, log *writeLog) {
	seen := map[*Epoch]bool{}
	var walk func(s heapSnap)
	walk = func(s heapSnap) {
		for k := range s.explicit {
			log.heap[heapPrefix(k)] = true
		}
		e := s.epoch
		if e == base || seen[e] {
			return
		}
		seen[e] = true
		switch e.kind {
		case 0:
			log.all = true
		case 1:
			for _, p := range e.parents {
				walk(p)
			}
		case 2:
			if e.mods.all {
				log.all = true
			}
			for k := range e.mods.whole {
				log.heap[k] = true
			}
			for k := range e.mods.refs {
				log.heap[k] = true
			}
			if e.mods.allocates {
				log.allocs = true
			}
			walk(e.parents[0])
		}
	}
	walk(f.snap())
}

// heapPrefix strips the leaf part: "F|T|a.b.arr" stays as is (prefix matching handles leaves).
func heapPrefix(name string) string { return name }

func (x *Exec) blockOrder(fn *ssa.Function) map[*ssa.BasicBlock]int {
	if m, ok := x.orders[fn]; ok {
		return m
	}
	var order []*ssa.BasicBlock
	visited := map[*ssa.BasicBlock]bool{}
	var dfs func(b *ssa.BasicBlock)
	dfs = func(b *ssa.BasicBlock) {
		visited[b] = true
		for _, s := range b.Succs {
			if !visited[s] && !s.Dominates(b) {
				dfs(s)
			}
		}
		order = append(order, b)
	}
	dfs(fn.Blocks[0])
	m := map[*ssa.BasicBlock]int{}
	for i, b := range order {
		m[b] = len(order) - 1 - i
	}
	if x.orders == nil {
		x.orders = map[*ssa.Function]map[*ssa.BasicBlock]int{}
	}
	x.orders[fn] = m
	return m
}

func (x *Exec) loopEnv(fr *Frame, li *loopInfo, st *State, phi map[*ssa.Phi]Value) *SpecEnv {
	env := &SpecEnv{x: x, st: st, old: fr.entrySt, vars: map[string]SVal{}, fr: fr, li: li, phi: phi}
	if fr.fn.Pkg != nil {
		env.pkg = fr.fn.Pkg.Pkg
	} else if o := fr.fn.Origin(); o != nil && o.Pkg != nil {
		env.pkg = o.Pkg.Pkg
	}
	if li.headState != nil {
		env.vars["$head"] = SVal{}
	}
	return env
}

func (x *Exec) loopHead(fr *Frame, li *loopInfo, cur *State, ins []edgeIn) {
	// entry values of header phis
	entryPhi := map[*ssa.Phi]Value{}
	for _, instr := range li.header.Instrs {
		phi, ok := instr.(*ssa.Phi)
		if !ok {
			continue
		}
		var cs []Term
		var vs []Value
		for _, in := range ins {
			for pi, pred := range li.header.Preds {
				if pred == in.from {
					cs = append(cs, in.st.pc)
					vs = append(vs, x.get(fr, phi.Edges[pi]))
					break
				}
			}
		}
		entryPhi[phi] = x.mergeValues(cs, vs, "phi")
		fr.vals[phi] = entryPhi[phi]
	}
	x.autoInvariants(fr, li)
	// ghost initialisation
	if li.lc != nil {
		env := x.loopEnv(fr, li, cur, entryPhi)
		for _, g := range li.lc.Ghosts {
			v := x.evalClauseValue(env, g, "loop ghost")
			cur.ghost["g."+g.Name] = v.V
			ghostTypes[x.key+"/g."+g.Name] = x.resolveType(env, g.T)
		}
	}
	fkey := x.P.funcKey(fr.fn)
	// invariants on entry
	if fr.discover == nil || true {
		env := x.loopEnv(fr, li, cur, entryPhi)
		if li.lc != nil {
			for _, c := range li.lc.Invariants {
				g := x.safeEvalBool(env, c, fkey)
				x.check(cur, "inv-entry", c.Tags, li.pos, li.key+": "+c.Text, g)
			}
		}
		for _, a := range li.autos {
			g := a.f(x, fr, cur, li, entryPhi)
			x.check(cur, "inv-entry", nil, li.pos, li.key+": auto "+a.text, g)
		}
	}
	// write set
	log := x.discoverWrites(fr, li, cur)
	li.writes = log
	// havoc
	mods := &ModSet{whole: map[string]bool{}, refs: map[string][]Term{}, allocates: log.allocs, all: log.all}
	for k := range log.heap {
		mods.whole[k] = true
	}
	li.frame = nil
	if li.lc != nil && len(li.lc.Modifies) > 0 && !log.all {
		// a declared loop frame: written arrays change only at the declared objects (checked on every back edge);
		// arrays the frame does not mention change only at objects allocated inside the loop
		env := x.loopEnv(fr, li, cur, entryPhi)
		decl := x.buildModSet(env, li.lc.Modifies, false)
		if decl.all {
			mods.all = true
		} else {
			precise := &ModSet{whole: map[string]bool{}, refs: map[string][]Term{}, allocates: true, ghosts: decl.ghosts}
			for k := range decl.whole {
				precise.whole[k] = true
			}
			for k, r := range decl.refs {
				precise.refs[k] = r
			}
			for k := range log.heap {
				if w, _, touched := decl.lookup(k); !w && !touched {
					precise.refs[k] = append(precise.refs[k]) // touched, no old object may change
					if _, ok := precise.refs[k]; !ok {
						precise.refs[k] = []Term{}
					}
				}
			}
			mods = precise
			li.frame = decl
			li.frameWM = cur.wm
			li.frameNames = nil
			for k := range log.heap {
				li.frameNames = append(li.frameNames, k)
			}
			sort.Strings(li.frameNames)
		}
	}
	li.headSnapBefore = cur.snap()
	x.frameEpoch(cur, mods)
	var cellList []*ssa.Alloc
	for a := range log.cells {
		cellList = append(cellList, a)
	}
	sort.Slice(cellList, func(i, j int) bool { return cellList[i].Name() < cellList[j].Name() })
	for _, a := range cellList {
		if _, ok := cur.cells[a]; !ok {
			continue
		}
		elem := a.Type().(*types.Pointer).Elem()
		if pv, isPtr := cur.cells[a].(VPtr); isPtr {
			_ = pv
			panic(unsupported("loop modifies a pointer-valued local holding a place: " + cellHint(a)))
		}
		cur.cells[a] = x.havocLike(cur, cellHint(a), elem, cur.cells[a])
	}
	var gkeys []string
	for k := range log.ghost {
		gkeys = append(gkeys, k)
	}
	sort.Strings(gkeys)
	// aliases (ghost names holding the same value, e.g. $visited and the iterator's own visited set)
	// must stay aliases after the havoc
	aliasOf := map[string]Value{}
	for _, k := range gkeys {
		if strings.HasPrefix(k, "defer.") {
			continue
		}
		if v, ok := cur.ghost[k]; ok {
			sig := ""
			if ts, okr := rawTerms(v); okr {
				for _, t := range ts {
					sig += t.S + "|"
				}
			}
			if nv, seen := aliasOf[sig]; seen && sig != "" {
				cur.ghost[k] = nv
				continue
			}
			nv := x.havocShape(k, v)
			cur.ghost[k] = nv
			if sig != "" {
				aliasOf[sig] = nv
			}
		}
	}
	if li.lc != nil {
		for _, sc := range li.lc.Steps {
			k := "g." + sc.Name
			if strings.HasPrefix(sc.Name, "$") || sc.Name == "held" || sc.Name == "now" {
				k = sc.Name
			}
			if v, ok := cur.ghost[k]; ok && !log.ghost[k] {
				cur.ghost[k] = x.havocShape(k, v)
			}
		}
	}
	for phi := range entryPhi {
		fr.vals[phi] = x.havocValue(cur, "phi."+phi.Name(), phi.Type())
	}
	headPhi := map[*ssa.Phi]Value{}
	for phi := range entryPhi {
		headPhi[phi] = fr.vals[phi]
	}
	// assume invariants
	env := x.loopEnv(fr, li, cur, headPhi)
	if li.lc != nil {
		for _, c := range li.lc.Invariants {
			g := x.safeEvalBool(env, c, fkey)
			cur.pc = x.andPC(cur.pc, g)
		}
	}
	for _, a := range li.autos {
		cur.pc = x.andPC(cur.pc, a.f(x, fr, cur, li, headPhi))
	}
	li.headState = cur.clone()
	li.measure0 = nil
	if (li.lc == nil || li.lc.Decreases == nil) && li.autoMeasure != nil {
		li.measure0 = []Term{x.define("measure", li.autoMeasure(x, fr, cur))}
	}
	if li.lc != nil && li.lc.Decreases != nil {
		for _, e := range li.lc.Decreases.Es {
			t := x.define("measure", x.evalClauseInt(env, li.lc.Decreases, e))
			li.measure0 = append(li.measure0, t)
		}
	}
}

func (x *Exec) evalClauseValue(env *SpecEnv, c *Clause, what string) (v SVal) {
	defer func() {
		if r := recover(); r != nil {
			if se, ok := r.(specErr); ok {
				panic(fmt.Errorf("contract error in %s (line %d: %s): %s", what, c.Line, c.Text, se.msg))
			}
			panic(r)
		}
	}()
	return x.eval(env, c.E)
}

func (x *Exec) evalClauseInt(env *SpecEnv, c *Clause, e Expr) (t Term) {
	defer func() {
		if r := recover(); r != nil {
			if se, ok := r.(specErr); ok {
				panic(fmt.Errorf("contract error (line %d: %s): %s", c.Line, c.Text, se.msg))
			}
			panic(r)
		}
	}()
	return x.evalInt(env, e)
}

// havocLike: fresh value with the same shape as v (keeps VStr triple form).
func (x *Exec) havocLike(st *State, hint string, t types.Type, like Value) Value {
	if s, ok := like.(VStr); ok {
		_ = s
		base := x.fresh(hint, SStr)
		off := x.fresh(hint+".off", SInt)
		ln := x.fresh(hint+".len", SInt)
		x.assume(And(Le(IntLit(0), off), Le(IntLit(0), ln), Le(Add(off, ln), x.slen(base))))
		return VStr{base, off, ln}
	}
	return x.havocValue(st, hint, t)
}

func (x *Exec) havocShape(hint string, v Value) Value {
	ts, ok := rawTerms(v)
	if !ok {
		panic(unsupported("havoc of ghost " + hint))
	}
	out := make([]Term, len(ts))
	for i, t := range ts {
		out[i] = x.fresh(hint, t.Sort)
	}
	nv, _ := rebuild(v, out)
	return nv
}

func (x *Exec) backEdge(fr *Frame, li *loopInfo, from *ssa.BasicBlock, st *State) {
	if fr.discover != nil {
		if fr.discover.li == li {
			*fr.discover.finals = append(*fr.discover.finals, st)
		} else if li.body[fr.discover.li.header] {
			// a jump from the loop being explored back to an enclosing loop's header ends the iteration too
			*fr.discover.finals = append(*fr.discover.finals, st)
		}
		if li.headState == nil || fr.discover.li == li || li.body[fr.discover.li.header] {
			return
		}
	}
	fkey := x.P.funcKey(fr.fn)
	// phi values along this edge
	phi := map[*ssa.Phi]Value{}
	for _, instr := range li.header.Instrs {
		p, ok := instr.(*ssa.Phi)
		if !ok {
			continue
		}
		for pi, pred := range li.header.Preds {
			if pred == from {
				phi[p] = x.get(fr, p.Edges[pi])
			}
		}
	}
	env := x.loopEnv(fr, li, st, phi)
	if li.lc != nil {
		for _, s := range li.lc.Steps {
			func() {
				defer func() {
					if r := recover(); r != nil {
						if se, ok := r.(specErr); ok {
							panic(fmt.Errorf("contract error in %s (step %s): %s", fkey, s.Text, se.msg))
						}
						panic(r)
					}
				}()
				x.ghostAssign(st, env, s)
			}()
		}
		env = x.loopEnv(fr, li, st, phi)
		// with phi registers rebound for evaluation
		saved := map[*ssa.Phi]Value{}
		for p, v := range phi {
			saved[p] = fr.vals[p]
			fr.vals[p] = v
		}
		for _, c := range li.lc.Invariants {
			g := x.safeEvalBool(env, c, fkey)
			x.check(st, "inv-step", c.Tags, li.pos, li.key+": "+c.Text, g)
		}
		if li.lc.Decreases != nil {
			var now []Term
			for _, e := range li.lc.Decreases.Es {
				now = append(now, x.evalClauseInt(env, li.lc.Decreases, e))
			}
			x.check(st, "decreases", li.lc.Decreases.Tags, li.pos, li.key+": "+li.lc.Decreases.Text, lexLess(now, li.measure0))
		}
		for p, v := range saved {
			fr.vals[p] = v
		}
	}
	for _, a := range li.autos {
		g := a.f(x, fr, st, li, phi)
		x.check(st, "inv-step", nil, li.pos, li.key+": auto "+a.text, g)
	}
	// declared loop frame: objects outside it are unchanged since the loop head
	if li.frame != nil && li.headState != nil {
		for _, name := range li.frameNames {
			for _, an := range x.sortedHeapNames() {
				srt := x.heapSorts[an]
				if !(an == name || strings.HasPrefix(an, name+".") || strings.HasPrefix(an, name+"|")) {
					continue
				}
				if !strings.HasPrefix(string(srt), "(Array Int ") {
					continue
				}
				whole, refs, _ := li.frame.lookup(an)
				if whole {
					continue
				}
				after := x.heapGet(st, an, srt)
				before := x.heapGet(li.headState, an, srt)
				if after.S == before.S {
					continue
				}
				r := x.fresh("fr", SInt)
				conds := []Term{Le(IntLit(0), r), Le(r, li.frameWM)}
				for _, rr := range refs {
					conds = append(conds, Not(Eq(r, rr)))
				}
				x.check(st, "frame", nil, li.pos, li.key+": only declared objects change in "+an, Implies(And(conds...), Eq(Select(after, r), Select(before, r))))
			}
		}
	}
	if li.lc == nil || li.lc.Decreases == nil {
		if li.autoMeasure != nil && len(li.measure0) == 1 {
			now := li.autoMeasure(x, fr, st)
			x.check(st, "decreases", nil, li.pos, li.key+": auto len - rangeindex", lexLess([]Term{now}, li.measure0))
		} else {
			x.loopsNoMeasure[fkey+": loop "+li.key] = true
		}
	}
}

// lexLess: now < before lexicographically, with every compared component bounded below by 0.
func lexLess(now, before []Term) Term {
	if len(now) == 0 {
		return False
	}
	var alts []Term
	for i := range now {
		var conj []Term
		for j := 0; j < i; j++ {
			conj = append(conj, Eq(now[j], before[j]))
		}
		conj = append(conj, Lt(now[i], before[i]), Ge(before[i], IntLit(0)))
		alts = append(alts, And(conj...))
	}
	return Or(alts...)
}

// autoInvariants: facts the engine proposes itself (and checks like any other invariant).
func (x *Exec) autoInvariants(fr *Frame, li *loopInfo) {
	if li.autosDone {
		return
	}
	li.autosDone = true
	// range-over-slice index kept in the hidden local "rangeindex" (NaiveForm): -1 <= rangeindex < len
	{
		var cell *ssa.Alloc
		var lenV ssa.Value
		for _, ins2 := range li.header.Instrs {
			if u, ok := ins2.(*ssa.UnOp); ok && u.Op == token.MUL {
				if a, ok := u.X.(*ssa.Alloc); ok && a.Comment == "rangeindex" {
					cell = a
				}
			}
			if b, ok := ins2.(*ssa.BinOp); ok && b.Op == token.LSS && cell != nil {
				lenV = b.Y
			}
		}
		if cell != nil && lenV != nil {
			c, lv := cell, lenV
			li.autos = append(li.autos, autoInv{
				text: "-1 <= rangeindex < len",
				f: func(x *Exec, fr *Frame, st *State, li *loopInfo, phis map[*ssa.Phi]Value) Term {
					cv, ok := st.cells[c]
					if !ok {
						return True
					}
					n := x.get(fr, lv).(VScalar).T
					return And(Le(IntLit(-1), cv.(VScalar).T), Lt(cv.(VScalar).T, n))
				},
			})
			li.autoMeasure = func(x *Exec, fr *Frame, st *State) Term {
				cv, ok := st.cells[c]
				if !ok {
					return IntLit(0)
				}
				return Sub(x.get(fr, lv).(VScalar).T, cv.(VScalar).T)
			}
		}
	}
	// range-over-slice index: the hidden index phi stays within [-1, len)
	for _, instr := range li.header.Instrs {
		phi, ok := instr.(*ssa.Phi)
		if !ok || phi.Comment != "rangeindex" {
			continue
		}
		// find "t = phi + 1; c = t < n"
		var lenV ssa.Value
		for _, ins2 := range li.header.Instrs {
			if b, ok := ins2.(*ssa.BinOp); ok && b.Op == token.LSS {
				lenV = b.Y
			}
		}
		if lenV == nil {
			continue
		}
		p, lv := phi, lenV
		li.autos = append(li.autos, autoInv{
			text: "-1 <= rangeindex < len",
			f: func(x *Exec, fr *Frame, st *State, li *loopInfo, phis map[*ssa.Phi]Value) Term {
				pv, ok := phis[p]
				if !ok {
					pv = fr.vals[p]
				}
				n := x.get(fr, lv).(VScalar).T
				return And(Le(IntLit(-1), pv.(VScalar).T), Lt(pv.(VScalar).T, n))
			},
		})
	}
}
