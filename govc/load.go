package main

// Loading /repo's working tree: packages, SSA, function lookup.

import (
	"encoding/json"
	"fmt"
	"go/ast"
	"go/token"
	"go/types"
	"os"
	"sort"
	"strings"

	"golang.org/x/tools/go/packages"
	"golang.org/x/tools/go/ssa"
	"golang.org/x/tools/go/ssa/ssautil"
)

const mainMod = "github.com/innovationb1ue/RedisGO"

// short package name -> import path
var scopePkgs = map[string]string{
	"util":        mainMod + "/util",
	"resp":        mainMod + "/resp",
	"memdb":       mainMod + "/memdb",
	"server":      mainMod + "/server",
	"raftexample": mainMod + "/raftexample",
	"raft":        "go.etcd.io/etcd/raft/v3",
	"quorum":      "go.etcd.io/etcd/raft/v3/quorum",
	"tracker":     "go.etcd.io/etcd/raft/v3/tracker",
	"wal":         "go.etcd.io/etcd/server/v3/storage/wal",
	"snap":        "go.etcd.io/etcd/server/v3/etcdserver/api/snap",
	"crc":         "go.etcd.io/etcd/pkg/v3/crc",
}

// packages outside the verification scope whose functions are named by a short prefix in contracts
// (naming only: nothing in them is loaded as a root, inlined or verified)
var aliasPkgs = map[string]string{
	"go.etcd.io/etcd/server/v3/etcdserver/api/rafthttp": "rafthttp",
	"go.etcd.io/etcd/raft/v3/raftpb":                    "raftpb",
	"go.etcd.io/etcd/server/v3/storage/wal/walpb":       "walpb",
	"go.etcd.io/etcd/client/pkg/v3/fileutil":            "fileutil",
	"go.etcd.io/etcd/pkg/v3/pbutil":                     "pbutil",
	"go.etcd.io/etcd/pkg/v3/ioutil":                     "pioutil",
}

// directory of each scope package under /repo (for contract files)
var scopeDirs = map[string]string{
	"util":        "util",
	"resp":        "resp",
	"memdb":       "memdb",
	"server":      "server",
	"raftexample": "raftexample",
	"raft":        "etcd/raft",
	"quorum":      "etcd/raft/quorum",
	"tracker":     "etcd/raft/tracker",
	"wal":         "etcd/server/storage/wal",
	"snap":        "etcd/server/etcdserver/api/snap",
	"crc":         "etcd/pkg/crc",
}

var overlayFiles = map[string][]byte{}

type Program struct {
	Fset  *token.FileSet
	Prog  *ssa.Program
	Pkgs  map[string]*packages.Package // by short name
	SSA   map[string]*ssa.Package      // by short name
	Short map[string]string            // import path -> short name
	files map[string][]byte            // source file cache
	allocMemo map[*ssa.Function]*allocInfo
}

func repoRoot() string {
	if r := os.Getenv("REPO_ROOT"); r != "" {
		return r
	}
	return "/repo"
}

func loadProgram(shorts []string) (*Program, error) {
	var paths []string
	for _, s := range shorts {
		p, ok := scopePkgs[s]
		if !ok {
			return nil, fmt.Errorf("unknown package %q", s)
		}
		paths = append(paths, p)
	}
	env := append(os.Environ(), "GOFLAGS=-mod=readonly", "GOPROXY=off", "GOSUMDB=off", "GOTOOLCHAIN=local", "GOOS=linux", "GOARCH=amd64", "CGO_ENABLED=0")
	cfg := &packages.Config{
		Mode:       packages.LoadSyntax,
		Dir:        repoRoot(),
		BuildFlags: []string{"-tags=verif"},
		Env:        env,
	}
	if ov := os.Getenv("GOVC_OVERLAY"); ov != "" {
		// {"<abs path in /repo>": "<replacement file>"}: selftest mutants without a scratch copy
		data, err := os.ReadFile(ov)
		if err != nil {
			return nil, err
		}
		m := map[string]string{}
		if err := json.Unmarshal(data, &m); err != nil {
			return nil, err
		}
		cfg.Overlay = map[string][]byte{}
		for k, v := range m {
			b, err := os.ReadFile(v)
			if err != nil {
				return nil, err
			}
			cfg.Overlay[k] = b
			overlayFiles[k] = b
		}
	}
	pkgs, err := packages.Load(cfg, paths...)
	if err != nil {
		return nil, err
	}
	var errs []string
	for _, p := range pkgs {
		for _, e := range p.Errors {
			errs = append(errs, e.Error())
		}
	}
	if len(errs) > 0 {
		return nil, fmt.Errorf("load errors:\n%s", strings.Join(errs, "\n"))
	}
	prog, spkgs := ssautil.Packages(pkgs, ssa.NaiveForm|ssa.GlobalDebug|ssa.InstantiateGenerics)
	prog.Build()
	P := &Program{Prog: prog, Pkgs: map[string]*packages.Package{}, SSA: map[string]*ssa.Package{}, Short: map[string]string{}, files: map[string][]byte{}}
	for s, ip := range scopePkgs {
		P.Short[ip] = s
	}
	for i, p := range pkgs {
		for s, ip := range scopePkgs {
			if ip == p.PkgPath {
				P.Pkgs[s] = p
				P.SSA[s] = spkgs[i]
				P.Short[ip] = s
			}
		}
		P.Fset = p.Fset
	}
	return P, nil
}

// funcKey gives the name used in contracts and obligation names: "pkg.Func" or "pkg.Recv.Method".
func (P *Program) funcKey(fn *ssa.Function) string {
	pkgShort := ""
	if fn.Pkg != nil {
		pkgShort = P.Short[fn.Pkg.Pkg.Path()]
		if pkgShort == "" {
			pkgShort = aliasPkgs[fn.Pkg.Pkg.Path()]
		}
		if pkgShort == "" {
			pkgShort = strings.TrimPrefix(fn.Pkg.Pkg.Path(), mainMod+"/")
		}
	} else if o := fn.Origin(); o != nil && o.Pkg != nil {
		pkgShort = P.Short[o.Pkg.Pkg.Path()]
		if pkgShort == "" {
			pkgShort = o.Pkg.Pkg.Path()
		}
	} else if fn.Object() != nil && fn.Object().Pkg() != nil {
		pkgShort = P.Short[fn.Object().Pkg().Path()]
		if pkgShort == "" {
			pkgShort = strings.TrimPrefix(fn.Object().Pkg().Path(), mainMod+"/")
		}
	}
	name := fn.Name()
	if o := fn.Origin(); o != nil {
		name = o.Name()
	}
	if fn.Signature.Recv() != nil {
		rt := fn.Signature.Recv().Type()
		if p, ok := rt.(*types.Pointer); ok {
			rt = p.Elem()
		}
		if n, ok := rt.(*types.Named); ok {
			return pkgShort + "." + n.Obj().Name() + "." + name
		}
	}
	if fn.Parent() != nil {
		return P.funcKey(fn.Parent()) + "$" + strings.TrimPrefix(fn.Name(), fn.Parent().Name()+"$")
	}
	return pkgShort + "." + name
}

// lookupFunc finds a function by contract key "pkg.Func" or "pkg.Recv.Method".
func (P *Program) lookupFunc(key string) *ssa.Function {
	if i := strings.Index(key, "$"); i > 0 {
		// closure: <parent key>$<n>[$<m>...]
		parent := P.lookupFunc(key[:i])
		if parent == nil {
			return nil
		}
		var find func(f *ssa.Function) *ssa.Function
		find = func(f *ssa.Function) *ssa.Function {
			for _, a := range f.AnonFuncs {
				if P.funcKey(a) == key {
					return a
				}
				if r := find(a); r != nil {
					return r
				}
			}
			return nil
		}
		return find(parent)
	}
	parts := strings.Split(key, ".")
	sp := P.SSA[parts[0]]
	if sp == nil {
		return nil
	}
	switch len(parts) {
	case 2:
		if f := sp.Func(parts[1]); f != nil {
			return f
		}
	case 3:
		m := sp.Members[parts[1]]
		t, ok := m.(*ssa.Type)
		if !ok {
			return nil
		}
		named, _ := t.Type().(*types.Named)
		if named == nil {
			return nil
		}
		if named.TypeParams().Len() > 0 {
			// generic: pick any instantiation reachable in the program
			for fn := range ssautil.AllFunctions(P.Prog) {
				if fn.Origin() != nil && fn.Origin().Name() == parts[2] && fn.Signature.Recv() != nil && len(fn.Blocks) > 0 {
					rt := fn.Signature.Recv().Type()
					if p, ok := rt.(*types.Pointer); ok {
						rt = p.Elem()
					}
					if n, ok := rt.(*types.Named); ok && n.Obj() == named.Obj() {
						return fn
					}
				}
			}
			return nil
		}
		for _, T := range []types.Type{named, types.NewPointer(named)} {
			ms := P.Prog.MethodSets.MethodSet(T)
			for i := 0; i < ms.Len(); i++ {
				if ms.At(i).Obj().Name() == parts[2] {
					fn := P.Prog.MethodValue(ms.At(i))
					if fn != nil && fn.Synthetic == "" {
						return fn
					}
				}
			}
		}
	}
	return nil
}

// allSourceFuncs lists functions (with bodies, including methods and closures) of a package.
func (P *Program) allSourceFuncs(short string) []*ssa.Function {
	sp := P.SSA[short]
	if sp == nil {
		return nil
	}
	seen := map[*ssa.Function]bool{}
	var out []*ssa.Function
	var add func(f *ssa.Function)
	add = func(f *ssa.Function) {
		if f == nil || seen[f] || len(f.Blocks) == 0 || f.Synthetic != "" {
			return
		}
		seen[f] = true
		out = append(out, f)
		for _, a := range f.AnonFuncs {
			add(a)
		}
	}
	for _, m := range sp.Members {
		switch m := m.(type) {
		case *ssa.Function:
			if m.Name() == "init" {
				continue
			}
			add(m)
		case *ssa.Type:
			named, ok := m.Type().(*types.Named)
			if !ok {
				continue
			}
			if named.TypeParams().Len() > 0 {
				continue
			}
			for _, T := range []types.Type{named, types.NewPointer(named)} {
				ms := P.Prog.MethodSets.MethodSet(T)
				for i := 0; i < ms.Len(); i++ {
					add(P.Prog.MethodValue(ms.At(i)))
				}
			}
		}
	}
	// generic instantiations belonging to this package
	for fn := range ssautil.AllFunctions(P.Prog) {
		if o := fn.Origin(); o != nil && o.Pkg == sp && len(fn.Blocks) > 0 {
			add(fn)
		}
	}
	sort.Slice(out, func(i, j int) bool { return P.funcKey(out[i]) < P.funcKey(out[j]) })
	return out
}

func (P *Program) srcText(start, end token.Pos) string {
	if !start.IsValid() || !end.IsValid() {
		return ""
	}
	ps, pe := P.Fset.Position(start), P.Fset.Position(end)
	if ps.Filename != pe.Filename {
		return ""
	}
	data, ok := P.files[ps.Filename]
	if !ok {
		if b, isOv := overlayFiles[ps.Filename]; isOv {
			data = b
		} else {
			data, _ = os.ReadFile(ps.Filename)
		}
		P.files[ps.Filename] = data
	}
	if ps.Offset < 0 || pe.Offset > len(data) || ps.Offset > pe.Offset {
		return ""
	}
	return string(data[ps.Offset:pe.Offset])
}

// enclosingNode finds the innermost AST node of the wanted kind containing pos.
func (P *Program) fileOf(fn *ssa.Function) *ast.File {
	pos := fn.Pos()
	if !pos.IsValid() && fn.Syntax() != nil {
		pos = fn.Syntax().Pos()
	}
	for _, p := range P.Pkgs {
		for _, f := range p.Syntax {
			if f.Pos() <= pos && pos <= f.End() {
				return f
			}
		}
	}
	return nil
}

func compactSrc(s string) string {
	s = strings.Join(strings.Fields(s), " ")
	if len(s) > 70 {
		s = s[:67] + "..."
	}
	return s
}

// applyTemplates merges template clauses into the contract of every function of the
// template's package whose parameters include the template's parameters (same name and type).
func applyTemplates(P *Program, C *Contracts) {
	for _, t := range C.Templates {
		// func-type contracts of the same package take the template's clauses too
		for _, fc := range C.Funcs {
			if fc.Pkg == t.Pkg && fc.Flags["functype"] && !fc.Flags["templated"] {
				fc.Flags["templated"] = true
				fc.Requires = append(append([]*Clause{}, t.Requires...), fc.Requires...)
				fc.Ensures = append(append([]*Clause{}, t.Ensures...), fc.Ensures...)
				fc.Modifies = append(append([]*Clause{}, t.Modifies...), fc.Modifies...)
			}
		}
		sp := P.SSA[t.Pkg]
		if sp == nil {
			continue
		}
		for _, fn := range P.allSourceFuncs(t.Pkg) {
			if fn.Parent() != nil {
				continue
			}
			ok := true
			for _, tp := range t.Template {
				found := false
				for _, p := range fn.Params {
					ts := types.TypeString(types.Unalias(p.Type()), func(pk *types.Package) string {
						if pk == sp.Pkg {
							return ""
						}
						return pk.Name()
					})
					if p.Name() == tp.Name && ts == tp.T.String() {
						found = true
					}
				}
				if !found {
					ok = false
				}
			}
			if !ok {
				continue
			}
			key := P.funcKey(fn)
			fc := C.Funcs[key]
			if fc == nil {
				fc = &FuncContract{Key: key, Pkg: t.Pkg, Flags: map[string]bool{}, File: t.File, Line: t.Line}
				C.Funcs[key] = fc
			}
			if fc.Flags["notemplate"] || fc.Flags["trusted"] {
				continue
			}
			fc.Requires = append(append([]*Clause{}, t.Requires...), fc.Requires...)
			fc.Ensures = append(append([]*Clause{}, t.Ensures...), fc.Ensures...)
			fc.Modifies = append(append([]*Clause{}, t.Modifies...), fc.Modifies...)
			fc.AllLoops = append(fc.AllLoops, t.LoopInvs...)
			for k, v := range t.Flags {
				if _, set := fc.Flags[k]; !set {
					fc.Flags[k] = v
				}
			}
		}
	}
}
