package main

// The //@ contract language: lexer, parser, AST, contract-file reader.

import (
	"fmt"
	"os"
	"path/filepath"
	"sort"
	"strconv"
	"strings"
)

// ---------------------------------------------------------------------------
// AST

type Expr interface{ exprNode() }

type (
	EIdent  struct{ Name string }
	EInt    struct{ Val string } // decimal text
	EStrLit struct{ Val string }
	EBool   struct{ Val bool }
	EUnary  struct {
		Op string
		X  Expr
	}
	EBinary struct {
		Op   string
		X, Y Expr
	}
	ECond struct{ C, A, B Expr }
	ECall struct {
		Fun  Expr
		Args []Expr
	}
	ESel struct {
		X   Expr
		Sel string
	}
	EIndex struct{ X, I Expr }
	ESlice struct{ X, Lo, Hi Expr }
	EAssertT struct {
		X Expr
		T *TypeExpr
	}
	EQuant struct {
		Forall bool
		Vars   []QVar
		Body   Expr
		Trig   [][]Expr
	}
	ETypeVal struct{ T *TypeExpr } // a type used as a value: conversion target, typeof comparison
	EOld     struct{ X Expr }
	ELet     struct {
		Name string
		Val  Expr
		Body Expr
	}
)

func (*EIdent) exprNode()   {}
func (*EInt) exprNode()     {}
func (*EStrLit) exprNode()  {}
func (*EBool) exprNode()    {}
func (*EUnary) exprNode()   {}
func (*EBinary) exprNode()  {}
func (*ECond) exprNode()    {}
func (*ECall) exprNode()    {}
func (*ESel) exprNode()     {}
func (*EIndex) exprNode()   {}
func (*ESlice) exprNode()   {}
func (*EAssertT) exprNode() {}
func (*EQuant) exprNode()   {}
func (*ETypeVal) exprNode() {}
func (*EOld) exprNode()     {}
func (*ELet) exprNode()     {}

type QVar struct {
	Name string
	T    *TypeExpr
}

// TypeExpr: Go type syntax subset plus math types set[T], seq[T], mmap[K]V.
type TypeExpr struct {
	Kind string // "name", "ptr", "slice", "map", "set", "seq", "mmap"
	Name string // for "name": "int", "pkg.T", "T"
	Elem *TypeExpr
	Key  *TypeExpr
	Args []*TypeExpr // generic instantiation
}

func (t *TypeExpr) String() string {
	switch t.Kind {
	case "name":
		return t.Name
	case "ptr":
		return "*" + t.Elem.String()
	case "slice":
		return "[]" + t.Elem.String()
	case "map":
		return "map[" + t.Key.String() + "]" + t.Elem.String()
	case "set":
		return "set[" + t.Elem.String() + "]"
	case "seq":
		return "seq[" + t.Elem.String() + "]"
	case "mmap":
		return "mmap[" + t.Key.String() + "]" + t.Elem.String()
	case "inst":
		var as []string
		for _, a := range t.Args {
			as = append(as, a.String())
		}
		return t.Name + "[" + strings.Join(as, ",") + "]"
	}
	return "?"
}

// ---------------------------------------------------------------------------
// Contracts

type Clause struct {
	Kind string   // requires, ensures, invariant, decreases, modifies, ...
	Tags []string // property ids
	E    Expr
	Es   []Expr // decreases tuple, modifies list
	Text string
	Name string // ghost / step / exit target
	LHS  Expr   // exit/step target when it is "owner.$field"
	T    *TypeExpr
	Line int
}

type LoopContract struct {
	Key        string // condition text or "#n"
	Invariants []*Clause
	Decreases  *Clause
	Ghosts     []*Clause // ghost x T = e
	Steps      []*Clause // step x := e
	Modifies   []*Clause
	Line       int
	used       bool
	templated  bool
}

type FuncContract struct {
	Key       string // pkg.Func or pkg.Recv.Method
	Pkg       string
	Requires  []*Clause
	Ensures   []*Clause
	Modifies  []*Clause
	Decreases *Clause
	Loops     []*LoopContract
	Ghosts    []*Clause
	Exits     []*Clause
	Flags     map[string]bool // nopanic, panics_allowed, trusted, inline, pure, bitvector, noreturn, allocates
	Params    []string        // for trusted library functions declared with a parameter list
	File      string
	Line      int
	Asserts   []*Clause // "assert" hints keyed by source text (rare)
	AllLoops  []*Clause // invariants for every loop (from templates)
	PrivReq   []*Clause // assumed at body entry only (unfolding of an abstract predicate)
	PrivEns   []*Clause // checked at body exit only
	FreeEns   []*Clause // assumed at call sites, not checked against the body (listed as an assumption)
	Template  []QVar    // for templates: the parameters a function must have
	IsTempl   bool
	LoopInvs  []*Clause // template: invariants added to every loop of the matched functions
	Maintains  []*Clause // closures: "maintains e" over captured variables = requires e + ensures e, and assumed by the
	// creator after every call it hands the closure to
	PanicsWhen *Clause  // "panics when <cond>": the body may panic or stop the process only where <cond> holds
}

type GuardDecl struct {
	Lock    string
	LockPkg string // import path of the package of a package-level mutex (map guards)
	Tags    []string
}

type SpecFunc struct {
	Name      string
	Pkg       string
	Params    []QVar
	Result    *TypeExpr
	Body      Expr // nil: uninterpreted
	Decreases []Expr
	Line      int
	File      string
}

type Lemma struct {
	Name     string
	Pkg      string
	Params   []QVar
	Requires []*Clause
	Ensures  []*Clause
	Axiom    bool
	Trig     [][]Expr
	File     string
	Line     int
}

type GhostField struct {
	Pkg   string
	Owner string // type name
	Name  string // with leading $
	T     *TypeExpr
}

type TypeInv struct {
	Pkg  string
	Type string
	E    Expr
	Text string
}

type Contracts struct {
	GhostVars   map[string]*TypeExpr
	GhostVarPkg map[string]string
	GhostVarAlloc map[string]bool
	ChanNonNil map[string]bool // element types (as written) whose channels only ever carry non-nil values
	ChanInv    map[string]*Clause // element type -> invariant over "v" (checked at sends, assumed at receives)
	ChanInvPkg map[string]string
	Templates   []*FuncContract
	Funcs       map[string]*FuncContract
	Specs       map[string]*SpecFunc // by name (global namespace; also pkg.name)
	Lemmas      []*Lemma
	GhostFields map[string]*GhostField // "pkg.Type.$name"
	GuardedMaps map[string]*GuardDecl // Go map type (as typeName prints it) -> package-level mutex
	Guarded     map[string]*GuardDecl  // "pkg.Type.field" -> the lock field that guards it
	TypeInvs    []*TypeInv
	GlobalInvs  map[string][]*Clause // package -> facts about package-level variables that no function in scope assigns
	Files       []string
	Digest      string
}

// ---------------------------------------------------------------------------
// Lexer

type tok struct {
	kind string // ident, int, str, char, op, eof
	text string
	pos  int
}

type lexer struct {
	src  string
	toks []tok
	p    int
}

var ops3 = []string{"<==>", "==>", "...", "<<", ">>", "&&", "||", "==", "!=", "<=", ">=", "::", ":=", "++", "&^"}

func lex(src string) ([]tok, error) {
	var toks []tok
	i := 0
	for i < len(src) {
		c := src[i]
		switch {
		case c == ' ' || c == '\t' || c == '\n' || c == '\r':
			i++
		case c >= '0' && c <= '9':
			j := i
			for j < len(src) && (src[j] >= '0' && src[j] <= '9' || src[j] == 'x' || src[j] == '_' || (src[j] >= 'a' && src[j] <= 'f') || (src[j] >= 'A' && src[j] <= 'F')) {
				j++
			}
			toks = append(toks, tok{"int", src[i:j], i})
			i = j
		case c == '_' || c == '$' || (c >= 'a' && c <= 'z') || (c >= 'A' && c <= 'Z'):
			j := i
			for j < len(src) && (src[j] == '_' || src[j] == '$' || (src[j] >= 'a' && src[j] <= 'z') || (src[j] >= 'A' && src[j] <= 'Z') || (src[j] >= '0' && src[j] <= '9')) {
				j++
			}
			toks = append(toks, tok{"ident", src[i:j], i})
			i = j
		case c == '"':
			j := i + 1
			for j < len(src) && src[j] != '"' {
				if src[j] == '\\' {
					j++
				}
				j++
			}
			if j >= len(src) {
				return nil, fmt.Errorf("unterminated string at %d", i)
			}
			s, err := strconv.Unquote(src[i : j+1])
			if err != nil {
				return nil, fmt.Errorf("bad string literal %s", src[i:j+1])
			}
			toks = append(toks, tok{"str", s, i})
			i = j + 1
		case c == '\'':
			j := i + 1
			for j < len(src) && src[j] != '\'' {
				if src[j] == '\\' {
					j++
				}
				j++
			}
			if j >= len(src) {
				return nil, fmt.Errorf("unterminated char at %d", i)
			}
			r, _, _, err := strconv.UnquoteChar(src[i+1:j], '\'')
			if err != nil {
				return nil, fmt.Errorf("bad char literal %s", src[i:j+1])
			}
			toks = append(toks, tok{"int", strconv.Itoa(int(r)), i})
			i = j + 1
		default:
			matched := false
			for _, o := range ops3 {
				if strings.HasPrefix(src[i:], o) {
					toks = append(toks, tok{"op", o, i})
					i += len(o)
					matched = true
					break
				}
			}
			if !matched {
				toks = append(toks, tok{"op", string(c), i})
				i++
			}
		}
	}
	toks = append(toks, tok{"eof", "", len(src)})
	return toks, nil
}

// ---------------------------------------------------------------------------
// Parser

type parser struct {
	toks []tok
	p    int
	src  string
	noIn bool // parsing the bound value of a let: "in" ends it
}

func (p *parser) peek() tok { return p.toks[p.p] }
func (p *parser) next() tok { t := p.toks[p.p]; p.p++; return t }
func (p *parser) isOp(s string) bool {
	t := p.peek()
	return t.kind == "op" && t.text == s
}
func (p *parser) isIdent(s string) bool {
	t := p.peek()
	return t.kind == "ident" && t.text == s
}
func (p *parser) expectOp(s string) {
	if !p.isOp(s) {
		panic(fmt.Errorf("expected %q at %d in %q (got %q)", s, p.peek().pos, p.src, p.peek().text))
	}
	p.p++
}

func parseExprString(src string) (e Expr, err error) {
	toks, err := lex(src)
	if err != nil {
		return nil, err
	}
	p := &parser{toks: toks, src: src}
	defer func() {
		if r := recover(); r != nil {
			if er, ok := r.(error); ok {
				err = er
				return
			}
			panic(r)
		}
	}()
	e = p.parseExpr()
	if p.peek().kind != "eof" {
		return nil, fmt.Errorf("trailing tokens at %d in %q", p.peek().pos, src)
	}
	return e, nil
}

func (p *parser) parseExprList() []Expr {
	var es []Expr
	es = append(es, p.parseExpr())
	for p.isOp(",") {
		p.p++
		es = append(es, p.parseExpr())
	}
	return es
}

func (p *parser) parseExpr() Expr {
	if p.isIdent("forall") || p.isIdent("exists") {
		fa := p.next().text == "forall"
		var vars []QVar
		for {
			// names sharing a type: x, y T
			var names []string
			names = append(names, p.expectIdent())
			for p.isOp(",") {
				// lookahead: "x, y T" vs "x T, y U": after comma an ident followed by ident/type start or comma
				p.p++
				names = append(names, p.expectIdent())
				if !p.isOp(",") {
					break
				}
			}
			T := p.parseType()
			for _, n := range names {
				vars = append(vars, QVar{n, T})
			}
			if p.isOp(",") {
				p.p++
				continue
			}
			break
		}
		p.expectOp("::")
		var trig [][]Expr
		for p.isOp("{") {
			p.p++
			trig = append(trig, p.parseExprList())
			p.expectOp("}")
		}
		body := p.parseExpr()
		return &EQuant{Forall: fa, Vars: vars, Body: body, Trig: trig}
	}
	if p.isIdent("let") {
		p.p++
		name := p.expectIdent()
		p.expectOp(":=")
		saved := p.noIn
		p.noIn = true
		val := p.parseTernary()
		p.noIn = saved
		if !p.isIdent("in") {
			panic(fmt.Errorf("expected 'in' after let binding in %q", p.src))
		}
		p.p++
		body := p.parseExpr()
		return &ELet{name, val, body}
	}
	return p.parseTernary()
}

func (p *parser) expectIdent() string {
	t := p.next()
	if t.kind != "ident" {
		panic(fmt.Errorf("expected identifier at %d in %q (got %q)", t.pos, p.src, t.text))
	}
	return t.text
}

func (p *parser) parseTernary() Expr {
	c := p.parseIff()
	if p.isOp("?") {
		p.p++
		a := p.parseExpr()
		p.expectOp(":")
		b := p.parseExpr()
		return &ECond{c, a, b}
	}
	return c
}

func (p *parser) parseIff() Expr {
	x := p.parseImplies()
	for p.isOp("<==>") {
		p.p++
		y := p.parseImplies()
		x = &EBinary{"<==>", x, y}
	}
	return x
}

func (p *parser) parseImplies() Expr {
	x := p.parseOr()
	if p.isOp("==>") {
		p.p++
		var y Expr
		if p.isIdent("forall") || p.isIdent("exists") || p.isIdent("let") {
			y = p.parseExpr()
		} else {
			y = p.parseImplies()
		}
		return &EBinary{"==>", x, y}
	}
	return x
}

func (p *parser) parseOr() Expr {
	x := p.parseAnd()
	for p.isOp("||") {
		p.p++
		y := p.parseAnd()
		x = &EBinary{"||", x, y}
	}
	return x
}

func (p *parser) parseAnd() Expr {
	x := p.parseCmp()
	for p.isOp("&&") {
		p.p++
		var y Expr
		if p.isIdent("forall") || p.isIdent("exists") || p.isIdent("let") {
			y = p.parseExpr()
		} else {
			y = p.parseCmp()
		}
		x = &EBinary{"&&", x, y}
	}
	return x
}

func (p *parser) parseCmp() Expr {
	x := p.parseAddExpr()
	for {
		t := p.peek()
		if t.kind == "op" && (t.text == "==" || t.text == "!=" || t.text == "<" || t.text == "<=" || t.text == ">" || t.text == ">=") {
			p.p++
			y := p.parseAddExpr()
			x = &EBinary{t.text, x, y}
			continue
		}
		if t.kind == "ident" && (t.text == "in" || t.text == "subset") && !(p.noIn && t.text == "in") {
			p.p++
			y := p.parseAddExpr()
			x = &EBinary{t.text, x, y}
			continue
		}
		return x
	}
}

func (p *parser) parseAddExpr() Expr {
	x := p.parseMulExpr()
	for {
		t := p.peek()
		if t.kind == "op" && (t.text == "+" || t.text == "-" || t.text == "|" || t.text == "^" || t.text == "++") {
			p.p++
			y := p.parseMulExpr()
			x = &EBinary{t.text, x, y}
			continue
		}
		if t.kind == "ident" && (t.text == "union" || t.text == "inter" || t.text == "minus") {
			p.p++
			y := p.parseMulExpr()
			x = &EBinary{t.text, x, y}
			continue
		}
		return x
	}
}

func (p *parser) parseMulExpr() Expr {
	x := p.parseUnary()
	for {
		t := p.peek()
		if t.kind == "op" && (t.text == "*" || t.text == "/" || t.text == "%" || t.text == "&" || t.text == "<<" || t.text == ">>" || t.text == "&^") {
			p.p++
			y := p.parseUnary()
			x = &EBinary{t.text, x, y}
			continue
		}
		return x
	}
}

func (p *parser) parseUnary() Expr {
	t := p.peek()
	if t.kind == "op" && t.text == "&" {
		p.p++
		x := p.parseUnary()
		return &EUnary{"&", x}
	}
	if t.kind == "op" && (t.text == "!" || t.text == "-") {
		p.p++
		x := p.parseUnary()
		return &EUnary{t.text, x}
	}
	return p.parsePostfix()
}

func isTypeStart(p *parser) bool {
	t := p.peek()
	if t.kind == "op" && (t.text == "*" || t.text == "[") {
		return true
	}
	return false
}

func (p *parser) parsePostfix() Expr {
	x := p.parsePrimary()
	for {
		switch {
		case p.isOp("."):
			p.p++
			if p.isOp("(") {
				p.p++
				T := p.parseType()
				p.expectOp(")")
				x = &EAssertT{x, T}
			} else {
				t := p.next()
				if t.kind != "ident" && t.kind != "int" {
					panic(fmt.Errorf("expected selector at %d in %q", t.pos, p.src))
				}
				x = &ESel{x, t.text}
			}
		case p.isOp("["):
			p.p++
			var lo, hi Expr
			if p.isOp(":") {
				p.p++
				if !p.isOp("]") {
					hi = p.parseExpr()
				}
				p.expectOp("]")
				x = &ESlice{x, nil, hi}
				continue
			}
			lo = p.parseExpr()
			if p.isOp(":") {
				p.p++
				if !p.isOp("]") {
					hi = p.parseExpr()
				}
				p.expectOp("]")
				x = &ESlice{x, lo, hi}
				continue
			}
			p.expectOp("]")
			x = &EIndex{x, lo}
		case p.isOp("("):
			p.p++
			var args []Expr
			if id, ok := x.(*EIdent); ok && (id.Name == "allfields" || id.Name == "allelems" || id.Name == "allmaps") {
				// the argument is a type (possibly an instantiated generic), not an expression
				args = []Expr{&ETypeVal{p.parseType()}}
				p.expectOp(")")
				x = &ECall{x, args}
				continue
			}
			if !p.isOp(")") {
				args = p.parseExprList()
			}
			p.expectOp(")")
			x = &ECall{x, args}
		default:
			return x
		}
	}
}

func (p *parser) parsePrimary() Expr {
	t := p.next()
	switch t.kind {
	case "int":
		txt := strings.ReplaceAll(t.text, "_", "")
		if strings.HasPrefix(txt, "0x") || strings.HasPrefix(txt, "0X") {
			u, err := strconv.ParseUint(txt[2:], 16, 64)
			if err != nil {
				panic(fmt.Errorf("bad hex literal %s", t.text))
			}
			txt = strconv.FormatUint(u, 10)
		}
		return &EInt{txt}
	case "str":
		return &EStrLit{t.text}
	case "ident":
		switch t.text {
		case "true":
			return &EBool{true}
		case "false":
			return &EBool{false}
		case "old":
			p.expectOp("(")
			e := p.parseExpr()
			p.expectOp(")")
			return &EOld{e}
		case "set", "seq", "mmap", "map":
			if p.isOp("[") {
				p.p--
				T := p.parseType()
				return &ETypeVal{T}
			}
		}
		return &EIdent{t.text}
	case "op":
		switch t.text {
		case "(":
			// parenthesised expression or parenthesised type (*T)(x)
			save := p.p
			if isTypeStart(p) {
				if T, ok := p.tryParseType(); ok && p.isOp(")") {
					p.p++
					return &ETypeVal{T}
				}
				p.p = save
			}
			savedNoIn := p.noIn
			p.noIn = false
			e := p.parseExpr()
			p.noIn = savedNoIn
			p.expectOp(")")
			return e
		case "*", "[":
			p.p--
			T := p.parseType()
			return &ETypeVal{T}
		}
	}
	panic(fmt.Errorf("unexpected token %q at %d in %q", t.text, t.pos, p.src))
}

func (p *parser) tryParseType() (T *TypeExpr, ok bool) {
	defer func() {
		if r := recover(); r != nil {
			ok = false
		}
	}()
	return p.parseType(), true
}

func (p *parser) parseType() *TypeExpr {
	t := p.next()
	switch {
	case t.kind == "op" && t.text == "*":
		return &TypeExpr{Kind: "ptr", Elem: p.parseType()}
	case t.kind == "op" && t.text == "[":
		p.expectOp("]")
		return &TypeExpr{Kind: "slice", Elem: p.parseType()}
	case t.kind == "ident":
		switch t.text {
		case "map", "mmap":
			if p.isOp("[") {
				p.p++
				k := p.parseType()
				p.expectOp("]")
				e := p.parseType()
				return &TypeExpr{Kind: t.text, Key: k, Elem: e}
			}
		case "set", "seq":
			if p.isOp("[") {
				p.p++
				e := p.parseType()
				p.expectOp("]")
				return &TypeExpr{Kind: t.text, Elem: e}
			}
		case "struct":
			if p.isOp("{") {
				p.p++
				p.expectOp("}")
				return &TypeExpr{Kind: "name", Name: "struct{}"}
			}
		}
		name := t.text
		if p.isOp(".") && p.toks[p.p+1].kind == "ident" {
			p.p++
			name += "." + p.next().text
		}
		// generic instantiation: Name[T1, T2]
		if p.isOp("[") && name != "set" && name != "seq" {
			save := p.p
			p.p++
			var targs []*TypeExpr
			ok := true
			func() {
				defer func() {
					if r := recover(); r != nil {
						ok = false
					}
				}()
				for {
					targs = append(targs, p.parseType())
					if p.isOp(",") {
						p.p++
						continue
					}
					break
				}
				p.expectOp("]")
			}()
			if ok && len(targs) > 0 {
				return &TypeExpr{Kind: "inst", Name: name, Args: targs}
			}
			p.p = save
		}
		return &TypeExpr{Kind: "name", Name: name}
	}
	panic(fmt.Errorf("expected type at %d in %q (got %q)", t.pos, p.src, t.text))
}

// ---------------------------------------------------------------------------
// Contract-file reader

var clauseKeywords = map[string]bool{
	"requires": true, "ensures": true, "modifies": true, "decreases": true, "nopanic": true,
	"panics": true, "arith": true, "trusted": true, "inline": true, "pure": true, "loop": true,
	"invariant": true, "ghost": true, "step": true, "exit": true, "func": true, "spec": true, "maintains": true,
	"lemma": true, "axiom": true, "field": true, "type": true, "noreturn": true, "allocates": true,
	"trigger": true, "params": true, "opaque": true, "havocs": true, "maypanic": true,
	"channel": true, "free": true, "functype": true, "ghostvar": true, "package": true, "private": true, "template": true, "framed": true, "notemplate": true, "globalinv": true, "guarded": true,
}

type rawLine struct {
	text string
	line int
}

// readContractFile extracts logical statements from //@ lines.
func readContractFile(path string) ([]rawLine, error) {
	data, err := os.ReadFile(path)
	if err != nil {
		return nil, err
	}
	var stmts []rawLine
	for i, ln := range strings.Split(string(data), "\n") {
		s := strings.TrimSpace(ln)
		var body string
		switch {
		case strings.HasPrefix(s, "//@"):
			body = s[3:]
		case strings.HasPrefix(s, "// @"):
			body = s[4:]
		default:
			continue
		}
		body = strings.TrimSpace(body)
		if body == "" || strings.HasPrefix(body, "--") {
			continue
		}
		first := body
		if j := strings.IndexAny(body, " \t[("); j >= 0 {
			first = body[:j]
		}
		if clauseKeywords[first] || len(stmts) == 0 {
			stmts = append(stmts, rawLine{body, i + 1})
		} else {
			stmts[len(stmts)-1].text += " " + body
		}
	}
	return stmts, nil
}

func splitTags(s string) (tags []string, rest string) {
	s = strings.TrimSpace(s)
	if strings.HasPrefix(s, "[") {
		j := strings.Index(s, "]")
		if j > 0 {
			inner := s[1:j]
			ok := true
			for _, t := range strings.Split(inner, ",") {
				t = strings.TrimSpace(t)
				if len(t) < 3 || t[0] != 'C' {
					ok = false
				}
			}
			if ok {
				for _, t := range strings.Split(inner, ",") {
					tags = append(tags, strings.TrimSpace(t))
				}
				return tags, strings.TrimSpace(s[j+1:])
			}
		}
	}
	return nil, s
}

func parseParams(p *parser) []QVar {
	var vars []QVar
	p.expectOp("(")
	for !p.isOp(")") {
		var names []string
		names = append(names, p.expectIdent())
		for p.isOp(",") {
			p.p++
			names = append(names, p.expectIdent())
		}
		T := p.parseType()
		for _, n := range names {
			vars = append(vars, QVar{n, T})
		}
		if p.isOp(",") {
			p.p++
		}
	}
	p.expectOp(")")
	return vars
}

func loadContracts(root string, shorts []string) (*Contracts, error) {
	C := &Contracts{Funcs: map[string]*FuncContract{}, Specs: map[string]*SpecFunc{}, GhostFields: map[string]*GhostField{}, GhostVars: map[string]*TypeExpr{}, GhostVarPkg: map[string]string{}}
	type src struct{ pkg, path string }
	var files []src
	_ = shorts
	var allShorts []string
	for s := range scopeDirs {
		allShorts = append(allShorts, s)
	}
	sort.Strings(allShorts)
	for _, s := range allShorts {
		files = append(files, src{s, filepath.Join(root, scopeDirs[s], "zz_contracts_verif.go")})
	}
	// library contracts live in /verif/govc/stdlib_contracts/*.txt (same language, package given by "package" line)
	lib, _ := filepath.Glob(filepath.Join(verifRoot(), "govc", "stdlib_contracts", "*.go.txt"))
	for _, l := range lib {
		files = append(files, src{"", l})
	}
	var digest strings.Builder
	for _, f := range files {
		stmts, err := readContractFile(f.path)
		if err != nil {
			if os.IsNotExist(err) {
				continue
			}
			return nil, err
		}
		C.Files = append(C.Files, f.path)
		if err := C.parseStatements(f.pkg, f.path, stmts); err != nil {
			return nil, err
		}
		for _, s := range stmts {
			digest.WriteString(s.text)
			digest.WriteByte('\n')
		}
	}
	C.Digest = fmt.Sprintf("%x", fnvHash(digest.String()))
	return C, nil
}

func fnvHash(s string) uint64 {
	var h uint64 = 14695981039346656037
	for i := 0; i < len(s); i++ {
		h ^= uint64(s[i])
		h *= 1099511628211
	}
	return h
}

func (C *Contracts) parseStatements(pkg, path string, stmts []rawLine) (err error) {
	var cur *FuncContract
	var curLoop *LoopContract
	var curLemma *Lemma
	cerr := func(st rawLine, format string, a ...any) error {
		return fmt.Errorf("%s:%d: %s", path, st.line, fmt.Sprintf(format, a...))
	}
	for _, st := range stmts {
		body := st.text
		kw := body
		rest := ""
		if j := strings.IndexAny(body, " \t[("); j >= 0 {
			kw = body[:j]
			rest = strings.TrimSpace(body[j:])
		}
		mkClause := func(kind string, withExpr bool) (*Clause, error) {
			tags, r := splitTags(rest)
			c := &Clause{Kind: kind, Tags: tags, Text: r, Line: st.line}
			if withExpr {
				e, err := parseExprString(r)
				if err != nil {
					return nil, cerr(st, "%v", err)
				}
				c.E = e
			}
			return c, nil
		}
		switch kw {
		case "package":
			pkg = strings.TrimSpace(rest)
		case "func":
			// "func pkg.Name" | "func Name" | "func Recv.Name" ; optional "(params)" for library functions
			name := rest
			var params []string
			if j := strings.Index(rest, "("); j >= 0 {
				name = strings.TrimSpace(rest[:j])
				inner := strings.TrimSuffix(strings.TrimSpace(rest[j+1:]), ")")
				for _, p := range strings.Split(inner, ",") {
					p = strings.TrimSpace(p)
					if p != "" {
						params = append(params, strings.Fields(p)[0])
					}
				}
			}
			key := name
			if pkg != "" && !strings.HasPrefix(name, pkg+".") && strings.Count(name, ".") < 2 {
				_, isPkg := scopePkgs[strings.Split(name, ".")[0]]
				for _, a := range aliasPkgs {
					if a == strings.Split(name, ".")[0] {
						isPkg = true
					}
				}
				if !isPkg || strings.Count(name, ".") == 0 {
					key = pkg + "." + name
				}
			}
			if _, dup := C.Funcs[key]; dup {
				return cerr(st, "duplicate contract for %s", key)
			}
			cur = &FuncContract{Key: key, Pkg: pkg, Flags: map[string]bool{}, File: path, Line: st.line, Params: params}
			C.Funcs[key] = cur
			curLoop = nil
			curLemma = nil
		case "spec":
			toks, err := lex(rest)
			if err != nil {
				return cerr(st, "%v", err)
			}
			p := &parser{toks: toks, src: rest}
			sf := &SpecFunc{Pkg: pkg, Line: st.line, File: path}
			perr := func() (err error) {
				defer func() {
					if r := recover(); r != nil {
						err = fmt.Errorf("%v", r)
					}
				}()
				sf.Name = p.expectIdent()
				sf.Params = parseParams(p)
				sf.Result = p.parseType()
				if p.isIdent("decreases") {
					p.p++
					sf.Decreases = p.parseExprList()
				}
				if p.isOp("=") {
					p.p++
					sf.Body = p.parseExpr()
				}
				if p.peek().kind != "eof" {
					return fmt.Errorf("trailing tokens in spec %s", sf.Name)
				}
				return nil
			}()
			if perr != nil {
				return cerr(st, "%v", perr)
			}
			if _, dup := C.Specs[sf.Name]; dup {
				return cerr(st, "duplicate spec %s", sf.Name)
			}
			C.Specs[sf.Name] = sf
			cur, curLoop, curLemma = nil, nil, nil
		case "lemma", "axiom":
			toks, err := lex(rest)
			if err != nil {
				return cerr(st, "%v", err)
			}
			p := &parser{toks: toks, src: rest}
			lm := &Lemma{Pkg: pkg, Axiom: kw == "axiom", File: path, Line: st.line}
			perr := func() (err error) {
				defer func() {
					if r := recover(); r != nil {
						err = fmt.Errorf("%v", r)
					}
				}()
				lm.Name = p.expectIdent()
				lm.Params = parseParams(p)
				return nil
			}()
			if perr != nil {
				return cerr(st, "%v", perr)
			}
			C.Lemmas = append(C.Lemmas, lm)
			curLemma = lm
			cur, curLoop = nil, nil
		case "channel":
			// channel <elem type> nonnil : protocol of every channel of that element type
			f := strings.Fields(rest)
			if len(f) < 2 {
				return cerr(st, "expected: channel <type> nonnil | channel <type> invariant <expr over v>")
			}
			if C.ChanNonNil == nil {
				C.ChanNonNil = map[string]bool{}
				C.ChanInv = map[string]*Clause{}
				C.ChanInvPkg = map[string]string{}
			}
			name := f[0]
			if pkg != "" && !strings.Contains(name, ".") {
				full := strings.TrimPrefix(scopePkgs[pkg], mainMod+"/")
				if full == "" {
					full = pkg
				}
				if strings.HasPrefix(name, "*") {
					name = "*" + full + "." + name[1:]
				} else {
					name = full + "." + name
				}
			}
			switch f[1] {
			case "nonnil":
				C.ChanNonNil[name] = true
			case "invariant":
				txt := strings.TrimSpace(strings.SplitN(rest, " invariant ", 2)[1])
				e, err := parseExprString(txt)
				if err != nil {
					return cerr(st, "%v", err)
				}
				C.ChanInv[name] = &Clause{Kind: "chaninv", E: e, Text: txt, Line: st.line}
				C.ChanInvPkg[name] = pkg
			default:
				return cerr(st, "expected: channel <type> nonnil | channel <type> invariant <expr over v>")
			}
		case "globalinv":
			// globalinv <expr over package-level variables>: assumed at the entry of every function of the package;
			// the variables it names must not be assigned by any function in scope (checked syntactically)
			e, err := parseExprString(rest)
			if err != nil {
				return cerr(st, "%v", err)
			}
			if C.GlobalInvs == nil {
				C.GlobalInvs = map[string][]*Clause{}
			}
			C.GlobalInvs[pkg] = append(C.GlobalInvs[pkg], &Clause{Kind: "globalinv", E: e, Text: rest, Line: st.line})
		case "ghostvar":
			f := strings.Fields(rest)
			if len(f) < 2 || !strings.HasPrefix(f[0], "$") {
				return cerr(st, "bad ghostvar declaration")
			}
			if f[len(f)-1] == "allocated" {
				// every member of the set is an object that exists (a goroutine only holds locks that exist)
				if C.GhostVarAlloc == nil {
					C.GhostVarAlloc = map[string]bool{}
				}
				C.GhostVarAlloc[f[0]] = true
				f = f[:len(f)-1]
			}
			toks, err := lex(strings.Join(f[1:], " "))
			if err != nil {
				return cerr(st, "%v", err)
			}
			p := &parser{toks: toks, src: rest}
			T, ok := p.tryParseType()
			if !ok {
				return cerr(st, "bad ghostvar type")
			}
			C.GhostVars[f[0]] = T
			C.GhostVarPkg[f[0]] = pkg
		case "guarded":
			// guarded[tags] Type.field by lockfield: the field (and, for a map-valued field, the map it holds) of an
			// object that is not new in this function is read only while the calling goroutine holds the
			// sync.RWMutex / sync.Mutex in the object's field lockfield, and written only while it holds it for writing
			var tags []string
			r := strings.TrimSpace(rest)
			if strings.HasPrefix(r, "[") {
				k := strings.Index(r, "]")
				if k < 0 {
					return cerr(st, "bad guarded declaration")
				}
				for _, t := range strings.Split(r[1:k], ",") {
					tags = append(tags, strings.TrimSpace(t))
				}
				r = strings.TrimSpace(r[k+1:])
			}
			if strings.HasPrefix(r, "map ") {
				// guarded[tags] map <Go type> by <package-level mutex>
				k := strings.LastIndex(r, " by ")
				if k < 0 {
					return cerr(st, "expected: guarded[tags] map <type> by <package-level mutex>")
				}
				ty := strings.TrimSpace(r[len("map "):k])
				if C.GuardedMaps == nil {
					C.GuardedMaps = map[string]*GuardDecl{}
				}
				C.GuardedMaps[ty] = &GuardDecl{Lock: strings.TrimSpace(r[k+4:]), LockPkg: scopePkgs[pkg], Tags: tags}
				break
			}
			f := strings.Fields(r)
			if len(f) != 3 || f[1] != "by" || !strings.Contains(f[0], ".") {
				return cerr(st, "expected: guarded[tags] Type.field by lockfield")
			}
			if C.Guarded == nil {
				C.Guarded = map[string]*GuardDecl{}
			}
			C.Guarded[pkg+"."+f[0]] = &GuardDecl{Lock: f[2], Tags: tags}
		case "field":
			// field Type.$name T
			f := strings.Fields(rest)
			if len(f) < 2 {
				return cerr(st, "bad field declaration")
			}
			on := strings.SplitN(f[0], ".", 2)
			if len(on) != 2 {
				return cerr(st, "bad field owner %s", f[0])
			}
			toks, err := lex(strings.Join(f[1:], " "))
			if err != nil {
				return cerr(st, "%v", err)
			}
			p := &parser{toks: toks, src: rest}
			T, ok := p.tryParseType()
			if !ok {
				return cerr(st, "bad field type")
			}
			gf := &GhostField{Pkg: pkg, Owner: on[0], Name: on[1], T: T}
			C.GhostFields[pkg+"."+on[0]+"."+on[1]] = gf
		case "type":
			// type T invariant e
			f := strings.SplitN(rest, " invariant ", 2)
			if len(f) != 2 {
				return cerr(st, "bad type invariant")
			}
			e, err := parseExprString(f[1])
			if err != nil {
				return cerr(st, "%v", err)
			}
			C.TypeInvs = append(C.TypeInvs, &TypeInv{Pkg: pkg, Type: strings.TrimSpace(f[0]), E: e, Text: f[1]})
		case "trigger":
			if curLemma == nil {
				return cerr(st, "trigger outside lemma")
			}
			toks, err := lex(rest)
			if err != nil {
				return cerr(st, "%v", err)
			}
			p := &parser{toks: toks, src: rest}
			var es []Expr
			perr := func() (err error) {
				defer func() {
					if r := recover(); r != nil {
						err = fmt.Errorf("%v", r)
					}
				}()
				es = p.parseExprList()
				return nil
			}()
			if perr != nil {
				return cerr(st, "%v", perr)
			}
			curLemma.Trig = append(curLemma.Trig, es)
		case "private":
			if cur == nil {
				return cerr(st, "private outside func")
			}
			sub := "requires"
			if strings.HasPrefix(rest, "ensures") {
				sub = "ensures"
			} else if !strings.HasPrefix(rest, "requires") {
				return cerr(st, "private must be followed by requires or ensures")
			}
			rest = strings.TrimSpace(rest[len(sub):])
			c, err := mkClause(sub, true)
			if err != nil {
				return err
			}
			if sub == "requires" {
				cur.PrivReq = append(cur.PrivReq, c)
			} else {
				cur.PrivEns = append(cur.PrivEns, c)
			}
		case "free":
			if cur == nil || !strings.HasPrefix(rest, "ensures") {
				return cerr(st, "free must be 'free ensures' inside a func")
			}
			rest = strings.TrimSpace(rest[len("ensures"):])
			c, err := mkClause("ensures", true)
			if err != nil {
				return err
			}
			cur.FreeEns = append(cur.FreeEns, c)
		case "template":
			// template name(param T, ...): clauses that follow apply to every function of the package having these parameters
			toks, err := lex(rest)
			if err != nil {
				return cerr(st, "%v", err)
			}
			p := &parser{toks: toks, src: rest}
			t := &FuncContract{Pkg: pkg, Flags: map[string]bool{}, File: path, Line: st.line, IsTempl: true}
			perr := func() (err error) {
				defer func() {
					if r := recover(); r != nil {
						err = fmt.Errorf("%v", r)
					}
				}()
				t.Key = p.expectIdent()
				t.Template = parseParams(p)
				return nil
			}()
			if perr != nil {
				return cerr(st, "%v", perr)
			}
			C.Templates = append(C.Templates, t)
			cur, curLoop, curLemma = t, nil, nil
		case "maintains":
			if cur == nil {
				return cerr(st, "maintains outside func")
			}
			c, err := mkClause("maintains", true)
			if err != nil {
				return err
			}
			cur.Maintains = append(cur.Maintains, c)
			cur.Requires = append(cur.Requires, c)
			cur.Ensures = append(cur.Ensures, c)
		case "requires", "ensures":
			c, err := mkClause(kw, true)
			if err != nil {
				return err
			}
			switch {
			case curLemma != nil:
				if kw == "requires" {
					curLemma.Requires = append(curLemma.Requires, c)
				} else {
					curLemma.Ensures = append(curLemma.Ensures, c)
				}
			case cur != nil:
				if kw == "requires" {
					cur.Requires = append(cur.Requires, c)
				} else {
					cur.Ensures = append(cur.Ensures, c)
				}
			default:
				return cerr(st, "%s outside func/lemma", kw)
			}
		case "invariant":
			if curLoop == nil && cur != nil && cur.IsTempl {
				c, err := mkClause(kw, true)
				if err != nil {
					return err
				}
				cur.LoopInvs = append(cur.LoopInvs, c)
				continue
			}
			if curLoop == nil {
				return cerr(st, "invariant outside loop")
			}
			c, err := mkClause(kw, true)
			if err != nil {
				return err
			}
			curLoop.Invariants = append(curLoop.Invariants, c)
		case "decreases", "modifies", "havocs":
			tags, r := splitTags(rest)
			c := &Clause{Kind: kw, Tags: tags, Text: r, Line: st.line}
			if r != "*" && r != "" {
				toks, err := lex(r)
				if err != nil {
					return cerr(st, "%v", err)
				}
				p := &parser{toks: toks, src: r}
				perr := func() (err error) {
					defer func() {
						if rr := recover(); rr != nil {
							err = fmt.Errorf("%v", rr)
						}
					}()
					c.Es = p.parseExprList()
					if p.peek().kind != "eof" {
						return fmt.Errorf("trailing tokens in %q", r)
					}
					return nil
				}()
				if perr != nil {
					return cerr(st, "%v", perr)
				}
			}
			if cur == nil {
				return cerr(st, "%s outside func", kw)
			}
			if kw == "decreases" {
				if curLoop != nil {
					curLoop.Decreases = c
				} else {
					cur.Decreases = c
				}
			} else {
				c.Kind = "modifies"
				if curLoop != nil {
					curLoop.Modifies = append(curLoop.Modifies, c)
				} else {
					cur.Modifies = append(cur.Modifies, c)
				}
			}
		case "loop":
			if cur == nil {
				return cerr(st, "loop outside func")
			}
			key := rest
			if strings.HasPrefix(key, "\"") {
				k, err := strconv.Unquote(key)
				if err != nil {
					return cerr(st, "bad loop key %s", key)
				}
				key = k
			}
			curLoop = &LoopContract{Key: key, Line: st.line}
			cur.Loops = append(cur.Loops, curLoop)
		case "ghost", "step", "exit":
			// ghost x T = e ; step x := e ; exit x := e
			if cur == nil {
				return cerr(st, "%s outside func", kw)
			}
			c := &Clause{Kind: kw, Text: rest, Line: st.line}
			toks, err := lex(rest)
			if err != nil {
				return cerr(st, "%v", err)
			}
			p := &parser{toks: toks, src: rest}
			perr := func() (err error) {
				defer func() {
					if rr := recover(); rr != nil {
						err = fmt.Errorf("%v", rr)
					}
				}()
				if kw == "ghost" {
					c.Name = p.expectIdent()
					c.T = p.parseType()
					p.expectOp("=")
				} else {
					lhs := p.parsePostfix()
					switch l := lhs.(type) {
					case *EIdent:
						c.Name = l.Name
					case *ESel:
						c.LHS = l
						c.Name = l.Sel
					default:
						return fmt.Errorf("bad assignment target in %q", rest)
					}
					p.expectOp(":=")
				}
				c.E = p.parseExpr()
				if p.peek().kind != "eof" {
					return fmt.Errorf("trailing tokens in %q", rest)
				}
				return nil
			}()
			if perr != nil {
				return cerr(st, "%v", perr)
			}
			switch kw {
			case "ghost":
				if curLoop != nil {
					curLoop.Ghosts = append(curLoop.Ghosts, c)
				} else {
					cur.Ghosts = append(cur.Ghosts, c)
				}
			case "step":
				if curLoop == nil {
					return cerr(st, "step outside loop")
				}
				curLoop.Steps = append(curLoop.Steps, c)
			case "exit":
				cur.Exits = append(cur.Exits, c)
			}
		case "nopanic", "trusted", "inline", "pure", "noreturn", "allocates", "opaque", "maypanic", "framed", "notemplate", "functype":
			if cur == nil {
				return cerr(st, "%s outside func", kw)
			}
			cur.Flags[kw] = true
		case "panics":
			if cur == nil {
				return cerr(st, "panics outside func")
			}
			if strings.HasPrefix(rest, "when ") || strings.HasPrefix(rest, "when\t") {
				// panics when <cond>: every explicit panic and every call that does not return (log.Fatal, log.Panic, ...)
				// in the body is an obligation that <cond> holds there
				rest = strings.TrimSpace(rest[len("when"):])
				c, err := mkClause("stops", true)
				if err != nil {
					return err
				}
				cur.PanicsWhen = c
				break
			}
			cur.Flags["panics_allowed"] = true
		case "arith":
			if cur == nil {
				return cerr(st, "arith outside func")
			}
			cur.Flags["bitvector"] = true
		default:
			return cerr(st, "unknown statement %q", kw)
		}
	}
	return nil
}
