package main

// Guarded fields: `//@ guarded[tags] T.f by l` declares that field f of a T (and, when f holds a map, that map) may be
// read only while the calling goroutine holds the lock in field l of the same object (read or write mode), and
// written only while it holds it in write mode. Objects allocated by the function under verification itself are
// exempt until they are published (a constructor fills its new object without locking). Each access generates a
// "guarded-field" obligation over the ghost locksets $lockedW / $lockedR maintained by the sync.RWMutex contracts.

import (
	"go/token"
	"go/types"

	"golang.org/x/tools/go/ssa"
)

type guardInfo struct {
	lock  Term
	obj   Term
	tags  []string
	what  string
	entry Term // watermark at function entry: objects above it are new
}

func (x *Exec) guardDecl(fa *ssa.FieldAddr) (*GuardDecl, string, *types.Struct) {
	if x.C == nil || len(x.C.Guarded) == 0 {
		return nil, "", nil
	}
	pt, ok := fa.X.Type().Underlying().(*types.Pointer)
	if !ok {
		return nil, "", nil
	}
	named, ok := pt.Elem().(*types.Named)
	if !ok {
		return nil, "", nil
	}
	stt, ok := named.Underlying().(*types.Struct)
	if !ok || named.Obj().Pkg() == nil {
		return nil, "", nil
	}
	key := named.Obj().Pkg().Name() + "." + named.Obj().Name() + "." + stt.Field(fa.Field).Name()
	gd := x.C.Guarded[key]
	if gd == nil {
		return nil, "", nil
	}
	return gd, key, stt
}

// guardFor returns the guard of the field addressed by v (a FieldAddr of a guarded field), if any.
func (x *Exec) guardFor(fr *Frame, st *State, v ssa.Value) *guardInfo {
	fa, ok := v.(*ssa.FieldAddr)
	if !ok {
		return nil
	}
	gd, key, stt := x.guardDecl(fa)
	if gd == nil {
		return nil
	}
	idx := -1
	for i := 0; i < stt.NumFields(); i++ {
		if stt.Field(i).Name() == gd.Lock {
			idx = i
		}
	}
	if idx < 0 {
		panic(unsupported("guarded " + key + ": no field " + gd.Lock))
	}
	if _, isPtr := stt.Field(idx).Type().Underlying().(*types.Pointer); !isPtr {
		panic(unsupported("guarded " + key + ": lock field must be a pointer to a mutex"))
	}
	base := x.get(fr, fa.X)
	elem := fa.X.Type().Underlying().(*types.Pointer).Elem()
	p := x.ptrPlace(base, elem)
	if p.Kind != PField {
		return nil
	}
	x.quiet++
	lv := x.loadPlace(st, x.subPlace(p, idx))
	x.quiet--
	lock, ok := lv.(VScalar)
	if !ok {
		return nil
	}
	entry := st.wm
	if x.entryWM.S != "" {
		entry = x.entryWM
	}
	return &guardInfo{lock: lock.T, obj: p.Ref, tags: gd.Tags, what: key + " (guarded by " + gd.Lock + ")", entry: entry}
}

func (x *Exec) lockedSets(st *State) (w, r Term) {
	e := x.emptySetTerm(SInt)
	wv := x.ghostGet(st, "$lockedW", VSet{e})
	rv := x.ghostGet(st, "$lockedR", VSet{e})
	return wv.(VSet).T, rv.(VSet).T
}

func (x *Exec) guardCheck(st *State, g *guardInfo, write bool, pos token.Pos, how string) {
	if g == nil || x.opts.NoPanicObls && false {
		return
	}
	w, r := x.lockedSets(st)
	held := Select(w, g.lock)
	if !write {
		held = Or(held, Select(r, g.lock))
	}
	mode := "read"
	if write {
		mode = "write"
	}
	x.check(st, "guarded-field", g.tags, pos, how+" of "+g.what+" needs its lock held ("+mode+")", Or(Gt(g.obj, g.entry), held))
}

// recordMapGuard remembers that the map reference m was read out of a guarded field.
func (x *Exec) recordMapGuard(m Term, g *guardInfo) {
	if x.guardProv == nil {
		x.guardProv = map[string]*guardInfo{}
	}
	x.guardProv[m.S] = g
}

func (x *Exec) mapGuard(m Term) *guardInfo {
	if x.guardProv == nil {
		return nil
	}
	return x.guardProv[m.S]
}

// mapGuardT: the guard of map m of Go type t - the guarded field it was read from, or, failing that, a type-level
// declaration "guarded[tags] map <type> by <package-level mutex>": every map of that type that the function did not
// create itself is shared between goroutines and may be touched only with that mutex held.
func (x *Exec) mapGuardT(st *State, m Term, t types.Type) *guardInfo {
	if g := x.mapGuard(m); g != nil {
		return g
	}
	if x.C == nil || len(x.C.GuardedMaps) == 0 {
		return nil
	}
	gd := x.C.GuardedMaps[typeName(t)]
	if gd == nil {
		return nil
	}
	lock := x.declare("addr.global."+sanitize(gd.LockPkg+"."+gd.Lock), SInt)
	entry := st.wm
	if x.entryWM.S != "" {
		entry = x.entryWM
	}
	return &guardInfo{lock: lock, obj: m, tags: gd.Tags, what: "a " + typeName(t) + " (guarded by " + gd.Lock + ")", entry: entry}
}
