package main

// Instruction semantics.

import (
	"fmt"
	"go/token"
	"go/types"
	"sort"
	"strings"

	"golang.org/x/tools/go/ssa"
)

func (x *Exec) execInstr(fr *Frame, st *State, instr ssa.Instruction) {
	switch ins := instr.(type) {
	case *ssa.DebugRef:
		return
	case *ssa.Alloc:
		elem := ins.Type().(*types.Pointer).Elem()
		if !ins.Heap {
			st.cells[ins] = x.zeroValue(elem)
			fr.vals[ins] = VPtr{&Place{Kind: PCell, Alloc: ins, Root: elem, Typ: elem}}
			return
		}
		r := x.alloc(st, "new."+cellHint(ins))
		var p *Place
		if _, ok := elem.Underlying().(*types.Struct); ok {
			p = &Place{Kind: PField, Ref: r, Root: elem, Typ: elem}
		} else {
			p = &Place{Kind: PBox, Ref: r, Root: elem, Typ: elem}
		}
		x.storePlace(st, p, x.zeroValue(elem))
		x.initGhostBools(st, elem, r)
		if at, ok := elem.Underlying().(*types.Array); ok {
			// a heap array (make([]T, const) compiles to new [n]T + slice): its elements, as seen through a slice
			// of it, start out zero
			et := at.Elem()
			zs := x.flatten(x.zeroValue(et))
			for i, lf := range leavesOf(et) {
				name := "E|" + typeName(et) + "|" + lf.Name
				arrs := x.heapGet(st, name, ArrSort(SInt, ArrSort(SInt, lf.Sort)))
				x.heapSet(st, name, x.define("h", Store(arrs, r, x.constArray(SInt, zs[i]))))
			}
		}
		fr.vals[ins] = VScalar{r}
	case *ssa.Store:
		addr := x.get(fr, ins.Addr)
		elem := ins.Addr.Type().Underlying().(*types.Pointer).Elem()
		p := x.ptrPlace(addr, elem)
		if !derivedAddr(ins.Addr) {
			x.nilCheckPlace(st, p, ins.Pos(), ins.Addr)
		}
		v := x.get(fr, ins.Val)
		if g := x.guardFor(fr, st, ins.Addr); g != nil {
			x.guardCheck(st, g, true, ins.Pos(), "write")
		}
		x.writeHook(fr, st, p, ins.Pos())
		x.storePlace(st, p, x.coerce(v, elem))
	case *ssa.UnOp:
		x.execUnOp(fr, st, ins)
	case *ssa.BinOp:
		fr.vals[ins] = x.binop(fr, st, ins.Op, x.get(fr, ins.X), x.get(fr, ins.Y), ins.X.Type(), ins.Type(), ins.Pos())
	case *ssa.FieldAddr:
		base := x.get(fr, ins.X)
		elem := ins.X.Type().Underlying().(*types.Pointer).Elem()
		p := x.ptrPlace(base, elem)
		x.nilCheckPlace(st, p, ins.Pos(), ins.X)
		fr.vals[ins] = VPtr{x.subPlace(p, ins.Field)}
	case *ssa.Field:
		s := x.get(fr, ins.X).(VStruct)
		fr.vals[ins] = s.Fields[ins.Field]
	case *ssa.IndexAddr:
		x.execIndexAddr(fr, st, ins)
	case *ssa.Index:
		x.execIndex(fr, st, ins)
	case *ssa.Slice:
		x.execSlice(fr, st, ins)
	case *ssa.Lookup:
		x.execLookup(fr, st, ins)
	case *ssa.MapUpdate:
		x.execMapUpdate(fr, st, ins)
	case *ssa.MakeMap:
		r := x.alloc(st, "map")
		x.mapInit(st, ins.Type(), r)
		fr.vals[ins] = VScalar{r}
	case *ssa.MakeSlice:
		x.execMakeSlice(fr, st, ins)
	case *ssa.MakeChan:
		r := x.alloc(st, "chan")
		fr.vals[ins] = VScalar{r}
	case *ssa.MakeClosure:
		var bs []Value
		for _, b := range ins.Bindings {
			bs = append(bs, x.get(fr, b))
		}
		fr.vals[ins] = VFunc{Fn: ins.Fn.(*ssa.Function), Bindings: bs}
	case *ssa.MakeInterface:
		fr.vals[ins] = x.makeIface(st, x.get(fr, ins.X), ins.X.Type())
	case *ssa.ChangeInterface:
		fr.vals[ins] = x.get(fr, ins.X)
	case *ssa.ChangeType:
		fr.vals[ins] = x.get(fr, ins.X)
	case *ssa.Convert:
		fr.vals[ins] = x.convert(fr, st, x.get(fr, ins.X), ins.X.Type(), ins.Type(), ins.Pos())
	case *ssa.TypeAssert:
		x.execTypeAssert(fr, st, ins)
	case *ssa.Extract:
		fr.vals[ins] = x.get(fr, ins.Tuple).(VTuple).Elems[ins.Index]
	case *ssa.Call:
		rv := x.execCall(fr, st, &ins.Call, ins, ins.Pos())
		if ins.Type() != nil {
			if tup, ok := ins.Type().(*types.Tuple); ok && tup.Len() == 0 {
				return
			}
		}
		fr.vals[ins] = rv
	case *ssa.Defer:
		x.execDefer(fr, st, ins)
	case *ssa.RunDefers:
		x.execRunDefers(fr, st, ins)
	case *ssa.Go:
		x.execGo(fr, st, ins)
	case *ssa.Phi:
		// handled at block entry
		if _, ok := fr.vals[ins]; !ok {
			panic("phi not bound: " + ins.Name())
		}
	case *ssa.Range:
		x.execRange(fr, st, ins)
	case *ssa.Next:
		x.execNext(fr, st, ins)
	case *ssa.Send:
		x.execSend(fr, st, ins)
	case *ssa.Select:
		x.execSelect(fr, st, ins)
	default:
		panic(unsupported(fmt.Sprintf("instruction %T", instr)))
	}
}

// coerce adapts a value to a destination type (mainly VPtr -> ref for pointer-typed cells).
func (x *Exec) coerce(v Value, t types.Type) Value {
	return v
}

func (x *Exec) nilCheckPlace(st *State, p *Place, pos token.Pos, via ssa.Value) {
	switch p.Kind {
	case PField, PBox:
		if isLiteral(p.Ref) && p.Ref.S != "0" {
			return
		}
		// a freshly allocated object is known non-nil syntactically
		if _, ok := via.(*ssa.Alloc); ok {
			return
		}
		x.panicCheck(st, "nil", pos, Not(Eq(p.Ref, IntLit(0))))
	}
}

func (x *Exec) writeHook(fr *Frame, st *State, p *Place, pos token.Pos) {}

func (x *Exec) execUnOp(fr *Frame, st *State, ins *ssa.UnOp) {
	switch ins.Op {
	case token.MUL: // load
		addr := x.get(fr, ins.X)
		elem := ins.X.Type().Underlying().(*types.Pointer).Elem()
		p := x.ptrPlace(addr, elem)
		if !derivedAddr(ins.X) {
			x.nilCheckPlace(st, p, ins.Pos(), ins.X)
		}
		fr.vals[ins] = x.loadPlace(st, p)
		if g := x.guardFor(fr, st, ins.X); g != nil {
			if _, isMap := elem.Underlying().(*types.Map); isMap {
				// the map held by a guarded field: checked where the map is used
				if mv, ok := fr.vals[ins].(VScalar); ok {
					x.recordMapGuard(mv.T, g)
				}
			} else {
				x.guardCheck(st, g, false, ins.Pos(), "read")
			}
		}
	case token.NOT:
		fr.vals[ins] = VScalar{Not(x.get(fr, ins.X).(VScalar).T)}
	case token.SUB:
		v := x.get(fr, ins.X).(VScalar).T
		if v.Sort == SF64 {
			fr.vals[ins] = VScalar{App("f64.neg", SF64, v)}
			return
		}
		fr.vals[ins] = VScalar{x.define(ins.Name(), wrapInt(App("-", SInt, v), ins.Type(), true))}
	case token.XOR:
		v := x.get(fr, ins.X).(VScalar).T
		// ^x = -x-1 for signed; for unsigned: max - x
		_, signed := intBits(ins.Type())
		if signed {
			fr.vals[ins] = VScalar{Sub(App("-", SInt, v), IntLit(1))}
		} else {
			_, hi, _ := intRange(ins.Type())
			fr.vals[ins] = VScalar{Sub(IntLitStr(hi), v)}
		}
	case token.ARROW:
		// channel receive: havoc
		elem := ins.X.Type().Underlying().(*types.Chan).Elem()
		v := x.havocValue(st, "recv", elem)
		ok := x.fresh("recvok", SBool)
		x.chanRecvFacts(st, elem, v, ok)
		x.recvZeroIfClosed(elem, v, ok)
		if ins.CommaOk {
			fr.vals[ins] = VTuple{[]Value{v, VScalar{ok}}}
		} else {
			fr.vals[ins] = v
		}
	default:
		panic(unsupported("unop " + ins.Op.String()))
	}
}

func (x *Exec) binop(fr *Frame, st *State, op token.Token, a, b Value, xt, rt types.Type, pos token.Pos) Value {
	switch av := a.(type) {
	case VStr:
		bv := b.(VStr)
		switch op {
		case token.EQL:
			return VScalar{x.strEq(av, bv)}
		case token.NEQ:
			return VScalar{Not(x.strEq(av, bv))}
		case token.ADD:
			return x.strConcat(av, bv)
		case token.LSS:
			return VScalar{App("slt", SBool, x.strTerm(av), x.strTerm(bv))}
		case token.GTR:
			return VScalar{App("slt", SBool, x.strTerm(bv), x.strTerm(av))}
		case token.LEQ:
			return VScalar{Not(App("slt", SBool, x.strTerm(bv), x.strTerm(av)))}
		case token.GEQ:
			return VScalar{Not(App("slt", SBool, x.strTerm(av), x.strTerm(bv)))}
		}
		panic(unsupported("string binop " + op.String()))
	case VIface:
		bv := b.(VIface)
		eq := And(Eq(av.Tag, bv.Tag), Eq(av.Box, bv.Box))
		if bv.Tag.S == "0" {
			eq = Eq(av.Tag, IntLit(0))
		} else if av.Tag.S == "0" {
			eq = Eq(bv.Tag, IntLit(0))
		}
		switch op {
		case token.EQL:
			return VScalar{eq}
		case token.NEQ:
			return VScalar{Not(eq)}
		}
		panic(unsupported("interface binop " + op.String()))
	case VSlice:
		// comparison with nil only
		bv := b.(VSlice)
		var eq Term
		if bv.Arr.S == "0" {
			eq = Eq(av.Arr, IntLit(0))
		} else {
			eq = Eq(bv.Arr, IntLit(0))
		}
		switch op {
		case token.EQL:
			return VScalar{eq}
		case token.NEQ:
			return VScalar{Not(eq)}
		}
		panic(unsupported("slice binop"))
	case VStruct:
		bv := b.(VStruct)
		ta, tb := x.flatten(av), x.flatten(bv)
		var eqs []Term
		for i := range ta {
			eqs = append(eqs, Eq(ta[i], tb[i]))
		}
		switch op {
		case token.EQL:
			return VScalar{And(eqs...)}
		case token.NEQ:
			return VScalar{Not(And(eqs...))}
		}
		panic(unsupported("struct binop"))
	case VPtr, VFunc:
		ta := x.flatten(a)[0]
		tb := x.flatten(b)[0]
		switch op {
		case token.EQL:
			return VScalar{Eq(ta, tb)}
		case token.NEQ:
			return VScalar{Not(Eq(ta, tb))}
		}
		panic(unsupported("pointer binop"))
	}
	if _, ok := b.(VPtr); ok {
		return x.binop(fr, st, op, VScalar{x.refOfPtr(b)}, a, xt, rt, pos)
	}
	if _, ok := b.(VFunc); ok {
		return x.binop(fr, st, op, VScalar{x.flatten(b)[0]}, a, xt, rt, pos)
	}
	at := a.(VScalar).T
	bt := b.(VScalar).T
	if at.Sort == SBool {
		switch op {
		case token.EQL:
			return VScalar{Eq(at, bt)}
		case token.NEQ:
			return VScalar{Not(Eq(at, bt))}
		case token.AND, token.LAND:
			return VScalar{And(at, bt)}
		case token.OR, token.LOR:
			return VScalar{Or(at, bt)}
		}
		panic(unsupported("bool binop " + op.String()))
	}
	if at.Sort == SF64 {
		switch op {
		case token.EQL:
			return VScalar{App("f64.eq", SBool, at, bt)}
		case token.NEQ:
			return VScalar{Not(App("f64.eq", SBool, at, bt))}
		case token.LSS:
			return VScalar{App("f64.lt", SBool, at, bt)}
		case token.GTR:
			return VScalar{App("f64.lt", SBool, bt, at)}
		case token.LEQ:
			return VScalar{App("f64.le", SBool, at, bt)}
		case token.GEQ:
			return VScalar{App("f64.le", SBool, bt, at)}
		case token.ADD:
			return VScalar{App("f64.add", SF64, at, bt)}
		case token.SUB:
			return VScalar{App("f64.sub", SF64, at, bt)}
		case token.MUL:
			return VScalar{App("f64.mul", SF64, at, bt)}
		case token.QUO:
			return VScalar{App("f64.div", SF64, at, bt)}
		}
		panic(unsupported("float binop " + op.String()))
	}
	// integers (or refs)
	switch op {
	case token.EQL:
		return VScalar{Eq(at, bt)}
	case token.NEQ:
		return VScalar{Not(Eq(at, bt))}
	case token.LSS:
		return VScalar{Lt(at, bt)}
	case token.LEQ:
		return VScalar{Le(at, bt)}
	case token.GTR:
		return VScalar{Gt(at, bt)}
	case token.GEQ:
		return VScalar{Ge(at, bt)}
	case token.ADD:
		return VScalar{x.define("add", wrapInt(Add(at, bt), rt, true))}
	case token.SUB:
		return VScalar{x.define("sub", wrapInt(Sub(at, bt), rt, true))}
	case token.MUL:
		if isLiteral(at) || isLiteral(bt) {
			if r, ok := smallConstMul(at, bt, rt); ok {
				return VScalar{x.define("mul", r)}
			}
		}
		return VScalar{x.define("mul", wrapInt(Mul(at, bt), rt, false))}
	case token.QUO:
		x.panicCheck(st, "div0", pos, Not(Eq(bt, IntLit(0))))
		q := x.truncDiv(at, bt)
		// MinInt / -1 wraps
		return VScalar{x.define("quo", wrapInt(q, rt, true))}
	case token.REM:
		x.panicCheck(st, "div0", pos, Not(Eq(bt, IntLit(0))))
		return VScalar{x.define("rem", x.truncRem(at, bt))}
	case token.AND:
		return VScalar{x.bitAnd(at, bt, rt)}
	case token.OR:
		return VScalar{x.bitOp("bor", at, bt, rt)}
	case token.XOR:
		return VScalar{x.bitOp("bxor", at, bt, rt)}
	case token.AND_NOT:
		return VScalar{x.bitOp("bandnot", at, bt, rt)}
	case token.SHL:
		return VScalar{x.shl(at, bt, rt)}
	case token.SHR:
		return VScalar{x.shr(at, bt, rt)}
	}
	panic(unsupported("int binop " + op.String()))
}

func smallConstMul(a, b Term, rt types.Type) (Term, bool) {
	return wrapInt(Mul(a, b), rt, false), true
}

// truncDiv: Go's truncated division on mathematical integers (b != 0).
func (x *Exec) truncDiv(a, b Term) Term {
	// SMT div is floor for positive divisor, ceil for negative: (div a b) with a - b*(div a b) in [0,|b|)
	// truncated: if a >= 0 then (div a b) else -(div (-a) b)
	return Ite(Ge(a, IntLit(0)), App("div", SInt, a, b), App("-", SInt, App("div", SInt, App("-", SInt, a), b)))
}

func (x *Exec) truncRem(a, b Term) Term {
	if v, ok := smtIntValue(b.S); ok && v > 0 {
		// positive constant divisor: floor-mod corrected for negative dividends (single mod term)
		m := App("mod", SInt, a, b)
		return Sub(m, Ite(And(Lt(a, IntLit(0)), Not(Eq(m, IntLit(0)))), b, IntLit(0)))
	}
	// a - b*truncDiv(a,b); sign follows a. For a>=0: a mod |b| ; a<0: -((-a) mod |b|)
	return Ite(Ge(a, IntLit(0)), App("mod", SInt, a, b), App("-", SInt, App("mod", SInt, App("-", SInt, a), b)))
}

func constPow2Minus1(t Term) (int, bool) {
	v, ok := smtIntValue(t.S)
	if !ok || v < 0 {
		return 0, false
	}
	n := 0
	for v&1 == 1 {
		v >>= 1
		n++
	}
	if v != 0 {
		return 0, false
	}
	return n, true
}

func (x *Exec) bitUF(name string) {
	if !x.declared[name] {
		x.declared[name] = true
		x.decls = append(x.decls, fmt.Sprintf("(declare-fun %s (Int Int) Int)", name))
	}
}

func (x *Exec) bitAnd(a, b Term, rt types.Type) Term {
	if n, ok := constPow2Minus1(b); ok {
		if _, signed := intBits(rt); !signed {
			return App("mod", SInt, a, IntLitStr(pow2(n)))
		}
		return App("mod", SInt, a, IntLitStr(pow2(n))) // two's complement low bits == floor-mod
	}
	if n, ok := constPow2Minus1(a); ok {
		return App("mod", SInt, b, IntLitStr(pow2(n)))
	}
	return x.bitOp("band", a, b, rt)
}

func (x *Exec) bitOp(name string, a, b Term, rt types.Type) Term {
	x.bitUF(name)
	r := x.define(name, App(name, SInt, a, b))
	x.assume(inRange(r, rt))
	if name == "bor" || name == "bxor" {
		// when the operands occupy disjoint bit ranges (one below bit k, the other a multiple of 2^k), or/xor is addition
		for _, k := range []int{1, 2, 3, 4, 5, 6, 7, 8, 16, 24, 32, 40, 48, 56} {
			p := IntLitStr(pow2(k))
			x.assume(Implies(And(Le(IntLit(0), a), Lt(a, p), Le(IntLit(0), b), Eq(App("mod", SInt, b, p), IntLit(0))), Eq(r, Add(a, b))))
			x.assume(Implies(And(Le(IntLit(0), b), Lt(b, p), Le(IntLit(0), a), Eq(App("mod", SInt, a, p), IntLit(0))), Eq(r, Add(a, b))))
		}
		x.trusted["bit operations: x|y and x^y equal x+y when the operands occupy disjoint bit ranges (the only fact assumed about | and ^ on non-constant operands)"] = true
	}
	return r
}

func (x *Exec) shl(a, b Term, rt types.Type) Term {
	if v, ok := smtIntValue(b.S); ok && v >= 0 && v < 64 {
		return x.define("shl", wrapInt(Mul(a, IntLitStr(pow2(int(v)))), rt, false))
	}
	return x.bitOp("bshl", a, b, rt)
}

func (x *Exec) shr(a, b Term, rt types.Type) Term {
	if v, ok := smtIntValue(b.S); ok && v >= 0 && v < 64 {
		// arithmetic shift = floor division
		return x.define("shr", App("div", SInt, a, IntLitStr(pow2(int(v)))))
	}
	return x.bitOp("bshr", a, b, rt)
}

func (x *Exec) strEq(a, b VStr) Term {
	// length shortcut for literals helps the solvers
	ta, tb := x.strTerm(a), x.strTerm(b)
	return Eq(ta, tb)
}

func (x *Exec) strConcat(a, b VStr) VStr {
	t := x.define("cat", App("sconcat", SStr, x.strTerm(a), x.strTerm(b)))
	return VStr{t, IntLit(0), x.slen(t)}
}

func (x *Exec) convert(fr *Frame, st *State, v Value, from, to types.Type, pos token.Pos) Value {
	fu, tu := from.Underlying(), to.Underlying()
	switch t := tu.(type) {
	case *types.Basic:
		switch {
		case t.Info()&types.IsString != 0:
			switch f := fu.(type) {
			case *types.Slice: // string([]byte) / string([]rune)
				if b, ok := f.Elem().Underlying().(*types.Basic); !ok || b.Kind() != types.Uint8 {
					panic(unsupported("string of non-byte slice"))
				}
				s := v.(VSlice)
				arr := x.heapGet(st, "E|uint8|", ArrSort(SInt, ArrSort(SInt, SInt)))
				base := x.define("str", App("ofbytes", SStr, Select(arr, s.Arr), s.Off, s.Len))
				x.assume(Eq(x.slen(base), s.Len))
				return VStr{base, IntLit(0), x.slen(base)}
			case *types.Basic:
				if f.Info()&types.IsString != 0 {
					return v
				}
				if f.Info()&types.IsInteger != 0 {
					t := x.define("runestr", App("ofrune", SStr, v.(VScalar).T))
					return VStr{t, IntLit(0), x.slen(t)}
				}
			}
		case t.Info()&types.IsInteger != 0:
			if fb, ok := fu.(*types.Basic); ok {
				if fb.Info()&types.IsInteger != 0 {
					flo, fhi, _ := intRange(from)
					tlo, thi, _ := intRange(to)
					if cmpDec(flo, tlo) >= 0 && cmpDec(fhi, thi) <= 0 {
						return v
					}
					return VScalar{x.define("conv", wrapInt(v.(VScalar).T, to, false))}
				}
				if fb.Info()&types.IsFloat != 0 {
					r := x.define("f2i", App("f64.toint", SInt, v.(VScalar).T))
					x.assume(inRange(r, to))
					return VScalar{r}
				}
				if fb.Kind() == types.UnsafePointer {
					return v
				}
			}
		case t.Info()&types.IsFloat != 0:
			if fb, ok := fu.(*types.Basic); ok {
				if fb.Info()&types.IsInteger != 0 {
					return VScalar{App("f64.ofint", SF64, v.(VScalar).T)}
				}
				if fb.Info()&types.IsFloat != 0 {
					return v
				}
			}
		case t.Kind() == types.UnsafePointer:
			return VScalar{x.flatten(v)[0]}
		}
	case *types.Slice:
		if fb, ok := fu.(*types.Basic); ok && fb.Info()&types.IsString != 0 {
			if b, ok := t.Elem().Underlying().(*types.Basic); !ok || b.Kind() != types.Uint8 {
				panic(unsupported("[]rune(string)"))
			}
			s := v.(VStr)
			r := x.alloc(st, "bytes")
			name := "E|uint8|"
			arr := x.heapGet(st, name, ArrSort(SInt, ArrSort(SInt, SInt)))
			content := x.fresh("content", ArrSort(SInt, SInt))
			base := x.strTerm(s)
			x.assume(Term{fmt.Sprintf("(forall ((k Int)) (! (=> (and (<= 0 k) (< k %s)) (= (select %s k) (sat %s k))) :pattern ((select %s k))))", s.Len.S, content.S, base.S, content.S), SBool})
			x.heapSet(st, name, x.define("h", Store(arr, r, content)))
			// by extensionality the bytes read back as a string are the string itself
			x.assume(Eq(App("ofbytes", SStr, content, IntLit(0), x.slen(base)), base))
			return VSlice{r, IntLit(0), x.define("blen", x.slen(base)), x.define("blen", x.slen(base))}
		}
		if _, ok := fu.(*types.Slice); ok {
			return v
		}
	case *types.Pointer:
		return v
	}
	panic(unsupported(fmt.Sprintf("conversion %s -> %s", from, to)))
}

// cmpDec compares two decimal integer texts.
func cmpDec(a, b string) int {
	na, nb := a[0] == '-', b[0] == '-'
	if na != nb {
		if na {
			return -1
		}
		return 1
	}
	if na {
		return -cmpDec(a[1:], b[1:])
	}
	if len(a) != len(b) {
		if len(a) < len(b) {
			return -1
		}
		return 1
	}
	if a < b {
		return -1
	}
	if a > b {
		return 1
	}
	return 0
}

func (x *Exec) execIndexAddr(fr *Frame, st *State, ins *ssa.IndexAddr) {
	base := x.get(fr, ins.X)
	idx := x.get(fr, ins.Index).(VScalar).T
	switch t := ins.X.Type().Underlying().(type) {
	case *types.Slice:
		s := base.(VSlice)
		x.panicCheck(st, "bounds", ins.Pos(), And(Le(IntLit(0), idx), Lt(idx, s.Len)))
		fr.vals[ins] = VPtr{&Place{Kind: PElem, Ref: s.Arr, Idx: At(s.Off, idx), Root: t.Elem(), Typ: t.Elem()}}
	case *types.Pointer: // pointer to array
		arrT := t.Elem().Underlying().(*types.Array)
		x.panicCheck(st, "bounds", ins.Pos(), And(Le(IntLit(0), idx), Lt(idx, IntLit(arrT.Len()))))
		switch b := base.(type) {
		case VPtr:
			if b.P.Kind == PCell && b.P.ArrIdx == nil {
				np := *b.P
				np.ArrIdx = &idx
				np.Typ = arrT.Elem()
				fr.vals[ins] = VPtr{&np}
				return
			}
			panic(unsupported("index into non-cell array"))
		case VScalar:
			// heap array object: treat as backing array of its element type
			x.nilCheckPlace(st, &Place{Kind: PBox, Ref: b.T}, ins.Pos(), ins.X)
			fr.vals[ins] = VPtr{&Place{Kind: PElem, Ref: b.T, Idx: idx, Root: arrT.Elem(), Typ: arrT.Elem()}}
		}
	default:
		panic(unsupported("IndexAddr on " + ins.X.Type().String()))
	}
}

func (x *Exec) execIndex(fr *Frame, st *State, ins *ssa.Index) {
	base := x.get(fr, ins.X)
	idx := x.get(fr, ins.Index).(VScalar).T
	switch b := base.(type) {
	case VStr:
		x.panicCheck(st, "bounds", ins.Pos(), And(Le(IntLit(0), idx), Lt(idx, b.Len)))
		fr.vals[ins] = VScalar{x.define(ins.Name(), x.sat(b.Base, At(b.Off, idx)))}
	case VArr:
		x.panicCheck(st, "bounds", ins.Pos(), And(Le(IntLit(0), idx), Lt(idx, IntLit(b.N))))
		var ts []Term
		for _, l := range b.Leaves {
			ts = append(ts, Select(l, idx))
		}
		v, _ := x.unflatten(ins.Type(), ts)
		fr.vals[ins] = v
	default:
		panic(unsupported(fmt.Sprintf("Index on %T", base)))
	}
}

func addSimpl(a, b Term) Term {
	if a.S == "0" {
		return b
	}
	if b.S == "0" {
		return a
	}
	return Add(a, b)
}

func (x *Exec) execSlice(fr *Frame, st *State, ins *ssa.Slice) {
	base := x.get(fr, ins.X)
	var lo, hi, max *Term
	if ins.Low != nil {
		t := x.get(fr, ins.Low).(VScalar).T
		lo = &t
	}
	if ins.High != nil {
		t := x.get(fr, ins.High).(VScalar).T
		hi = &t
	}
	if ins.Max != nil {
		t := x.get(fr, ins.Max).(VScalar).T
		max = &t
	}
	switch b := base.(type) {
	case VStr:
		l := IntLit(0)
		if lo != nil {
			l = *lo
		}
		h := b.Len
		if hi != nil {
			h = *hi
		}
		x.panicCheck(st, "bounds", ins.Pos(), And(Le(IntLit(0), l), Le(l, h), Le(h, b.Len)))
		fr.vals[ins] = VStr{b.Base, addSimpl(b.Off, l), x.define("slen", Sub(h, l))}
	case VSlice:
		l := IntLit(0)
		if lo != nil {
			l = *lo
		}
		h := b.Len
		if hi != nil {
			h = *hi
		}
		m := b.Cap
		if max != nil {
			m = *max
		}
		x.panicCheck(st, "bounds", ins.Pos(), And(Le(IntLit(0), l), Le(l, h), Le(h, m), Le(m, b.Cap)))
		fr.vals[ins] = VSlice{b.Arr, addSimpl(b.Off, l), x.define("len", Sub(h, l)), x.define("cap", Sub(m, l))}
	case VPtr, VScalar:
		// slicing a pointer to array: arr[:n]
		pt, ok := ins.X.Type().Underlying().(*types.Pointer)
		if !ok {
			panic(unsupported("slice of " + ins.X.Type().String()))
		}
		arrT := pt.Elem().Underlying().(*types.Array)
		ref, isRef := base.(VScalar)
		if !isRef {
			panic(unsupported("slice of local array (non-heap)"))
		}
		l := IntLit(0)
		if lo != nil {
			l = *lo
		}
		h := IntLit(arrT.Len())
		if hi != nil {
			h = *hi
		}
		x.panicCheck(st, "bounds", ins.Pos(), And(Le(IntLit(0), l), Le(l, h), Le(h, IntLit(arrT.Len()))))
		fr.vals[ins] = VSlice{ref.T, l, x.define("len", Sub(h, l)), x.define("cap", Sub(IntLit(arrT.Len()), l))}
	default:
		panic(unsupported(fmt.Sprintf("Slice on %T", base)))
	}
}

func (x *Exec) execMakeSlice(fr *Frame, st *State, ins *ssa.MakeSlice) {
	l := x.get(fr, ins.Len).(VScalar).T
	c := x.get(fr, ins.Cap).(VScalar).T
	// run-time panics: len out of range; and an allocation-size obligation
	x.panicCheck(st, "alloc", ins.Pos(), And(Le(IntLit(0), l), Le(l, c), Le(c, IntLitStr(allocLimit))))
	r := x.alloc(st, "mk")
	et := ins.Type().Underlying().(*types.Slice).Elem()
	// zero contents
	zs := x.flatten(x.zeroValue(et))
	for i, lf := range leavesOf(et) {
		name := "E|" + typeName(et) + "|" + lf.Name
		arrs := x.heapGet(st, name, ArrSort(SInt, ArrSort(SInt, lf.Sort)))
		zarr := x.constArray(SInt, zs[i])
		x.heapSet(st, name, x.define("h", Store(arrs, r, zarr)))
	}
	fr.vals[ins] = VSlice{r, IntLit(0), l, c}
}

// allocLimit: allocations requested above this many elements count as a defect
// (a client-controlled allocation of 2^32 elements takes the process down).
const allocLimit = "4294967296"

func (x *Exec) execTypeAssert(fr *Frame, st *State, ins *ssa.TypeAssert) {
	i := x.get(fr, ins.X).(VIface)
	at := ins.AssertedType
	var ok Term
	var val Value
	if _, isI := at.Underlying().(*types.Interface); isI {
		// interface-to-interface: dynamic type must implement it; we only know nil fails
		impl := x.fresh("implements", SBool)
		ok = And(Not(Eq(i.Tag, IntLit(0))), impl)
		if types.Implements(ins.X.Type(), at.Underlying().(*types.Interface)) {
			ok = Not(Eq(i.Tag, IntLit(0)))
		}
		val = i
	} else {
		ok = Eq(i.Tag, x.typeTag(at))
		val = x.unboxIface(st, i, at)
	}
	if ins.CommaOk {
		okc := x.define("ok", ok)
		// on failure the value is the zero value
		zero := x.zeroValue(at)
		zt, _ := rawTerms(zero)
		vt, _ := rawTerms(val)
		if len(zt) == len(vt) {
			out := make([]Term, len(vt))
			for k := range vt {
				out[k] = Ite(okc, vt[k], zt[k])
			}
			val, _ = rebuild(val, out)
		}
		fr.vals[ins] = VTuple{[]Value{val, VScalar{okc}}}
		return
	}
	x.panicCheck(st, "assert-type", ins.Pos(), ok)
	fr.vals[ins] = val
}

// ---------------------------------------------------------------------------
// maps

func mapNames(t types.Type) (dom, ln string, vals []string, keySort Sort, valLeaves []Leaf) {
	mt := t.Underlying().(*types.Map)
	kl := leavesOf(mt.Key())
	if len(kl) != 1 {
		panic(unsupported("map with structured key " + t.String()))
	}
	keySort = kl[0].Sort
	base := "M|" + typeName(mt.Key()) + ">" + typeName(mt.Elem()) + "|"
	dom = base + "dom"
	ln = base + "len"
	valLeaves = leavesOf(mt.Elem())
	for _, l := range valLeaves {
		vals = append(vals, base+"val."+l.Name)
	}
	return
}

func (x *Exec) mapInit(st *State, t types.Type, r Term) {
	dom, ln, _, ks, _ := mapNames(t)
	d := x.heapGet(st, dom, ArrSort(SInt, ArrSort(ks, SBool)))
	x.heapSet(st, dom, x.define("h", Store(d, r, App("(as const "+string(ArrSort(ks, SBool))+")", ArrSort(ks, SBool), False))))
	l := x.heapGet(st, ln, ArrSort(SInt, SInt))
	x.heapSet(st, ln, x.define("h", Store(l, r, IntLit(0))))
}

func (x *Exec) keyTerm(v Value) Term { return x.flatten(v)[0] }

func (x *Exec) mapLookup(st *State, t types.Type, m Term, key Term) (val Value, present Term) {
	dom, _, vals, ks, vl := mapNames(t)
	d := x.heapGet(st, dom, ArrSort(SInt, ArrSort(ks, SBool)))
	present = x.define("has", Select(Select(d, m), key))
	ts := make([]Term, len(vals))
	for i, n := range vals {
		a := x.heapGet(st, n, ArrSort(SInt, ArrSort(ks, vl[i].Sort)))
		ts[i] = Select(Select(a, m), key)
	}
	mt := t.Underlying().(*types.Map)
	val, _ = x.unflatten(mt.Elem(), ts)
	x.assumeTyped(st, val, mt.Elem())
	return
}

func (x *Exec) execLookup(fr *Frame, st *State, ins *ssa.Lookup) {
	if _, isMap := ins.X.Type().Underlying().(*types.Map); !isMap {
		// string index via Lookup
		s := x.get(fr, ins.X).(VStr)
		idx := x.get(fr, ins.Index).(VScalar).T
		x.panicCheck(st, "bounds", ins.Pos(), And(Le(IntLit(0), idx), Lt(idx, s.Len)))
		fr.vals[ins] = VScalar{x.sat(s.Base, At(s.Off, idx))}
		return
	}
	m := x.get(fr, ins.X).(VScalar).T
	x.guardCheck(st, x.mapGuardT(st, m, ins.X.Type()), false, ins.Pos(), "lookup in the map")
	key := x.keyTerm(x.get(fr, ins.Index))
	val, present := x.mapLookup(st, ins.X.Type(), m, key)
	mt := ins.X.Type().Underlying().(*types.Map)
	// absent (or nil map) -> zero value
	zero := x.zeroValue(mt.Elem())
	zt, _ := rawTerms(zero)
	vt, _ := rawTerms(val)
	has := And(Not(Eq(m, IntLit(0))), present)
	if len(zt) == len(vt) {
		out := make([]Term, len(vt))
		for k := range vt {
			out[k] = Ite(has, vt[k], zt[k])
		}
		val, _ = rebuild(val, out)
	} else {
		zf := x.flatten(zero)
		vf := x.flatten(val)
		out := make([]Term, len(vf))
		for k := range vf {
			out[k] = Ite(has, vf[k], zf[k])
		}
		val, _ = x.unflatten(mt.Elem(), out)
	}
	if ins.CommaOk {
		fr.vals[ins] = VTuple{[]Value{val, VScalar{x.define("ok", has)}}}
	} else {
		fr.vals[ins] = val
	}
}

func (x *Exec) mapStore(st *State, t types.Type, m, key Term, v Value) {
	dom, ln, vals, ks, vl := mapNames(t)
	d := x.heapGet(st, dom, ArrSort(SInt, ArrSort(ks, SBool)))
	had := Select(Select(d, m), key)
	l := x.heapGet(st, ln, ArrSort(SInt, SInt))
	x.heapSet(st, ln, x.define("h", Store(l, m, Ite(had, Select(l, m), Add(Select(l, m), IntLit(1))))))
	x.heapSet(st, dom, x.define("h", Store(d, m, Store(Select(d, m), key, True))))
	ts := x.flatten(v)
	for i, n := range vals {
		a := x.heapGet(st, n, ArrSort(SInt, ArrSort(ks, vl[i].Sort)))
		x.heapSet(st, n, x.define("h", Store(a, m, Store(Select(a, m), key, ts[i]))))
	}
}

func (x *Exec) mapDelete(st *State, t types.Type, m, key Term) {
	dom, ln, _, ks, _ := mapNames(t)
	d := x.heapGet(st, dom, ArrSort(SInt, ArrSort(ks, SBool)))
	had := And(Not(Eq(m, IntLit(0))), Select(Select(d, m), key))
	l := x.heapGet(st, ln, ArrSort(SInt, SInt))
	x.heapSet(st, ln, x.define("h", Store(l, m, Ite(had, Sub(Select(l, m), IntLit(1)), Select(l, m)))))
	x.heapSet(st, dom, x.define("h", Store(d, m, Store(Select(d, m), key, False))))
}

func (x *Exec) mapLen(st *State, t types.Type, m Term) Term {
	_, ln, _, _, _ := mapNames(t)
	l := x.heapGet(st, ln, ArrSort(SInt, SInt))
	r := x.define("maplen", Ite(Eq(m, IntLit(0)), IntLit(0), Select(l, m)))
	x.assumeLocal(And(Ge(r, IntLit(0)), Le(r, IntLitStr(memLimit))))
	// len(m) is the number of keys
	if x.quiet == 0 && x.quantDepth == 0 {
		dom, _, _, ks, _ := mapNames(t)
		d := x.heapGet(st, dom, ArrSort(SInt, ArrSort(ks, SBool)))
		x.assume(Implies(Not(Eq(m, IntLit(0))), Eq(r, x.card(Select(d, m)))))
	}
	return r
}

func (x *Exec) execMapUpdate(fr *Frame, st *State, ins *ssa.MapUpdate) {
	m := x.get(fr, ins.Map).(VScalar).T
	x.guardCheck(st, x.mapGuardT(st, m, ins.Map.Type()), true, ins.Pos(), "update of the map")
	x.panicCheck(st, "nil", ins.Pos(), Not(Eq(m, IntLit(0))))
	key := x.keyTerm(x.get(fr, ins.Key))
	x.mapStore(st, ins.Map.Type(), m, key, x.get(fr, ins.Value))
}

// map iteration: visited-set model
func (x *Exec) execRange(fr *Frame, st *State, ins *ssa.Range) {
	if _, isMap := ins.X.Type().Underlying().(*types.Map); !isMap {
		panic(unsupported("range over string"))
	}
	_, _, _, ks, _ := mapNames(ins.X.Type())
	empty := App("(as const "+string(ArrSort(ks, SBool))+")", ArrSort(ks, SBool), False)
	st.ghost[iterKey(ins)] = VSet{empty}
	fr.vals[ins] = x.get(fr, ins.X)
	// counting facts: iterating an unmodified map visits exactly len(m) entries
	m := x.get(fr, ins.X).(VScalar).T
	x.guardCheck(st, x.mapGuardT(st, m, ins.X.Type()), false, ins.Pos(), "iteration over the map")
	dom, _, _, ks2, _ := mapNames(ins.X.Type())
	d := x.heapGet(st, dom, ArrSort(SInt, ArrSort(ks2, SBool)))
	st.ghost["$visited"] = VSet{empty}
	st.ghost["$count"] = VScalar{IntLit(0)}
	st.ghost["$dom0"] = VSet{x.define("dom0", Select(d, m))}
	if x.rangeDom0 == nil {
		x.rangeDom0 = map[*ssa.Range]string{}
	}
	x.rangeDom0[ins] = Select(d, m).S
	st.ghost["$len0"] = VScalar{x.mapLen(st, ins.X.Type(), m)}
	ghostTypes[x.key+"/$visited"] = &SType{Math: "set", Elem: goT(ins.X.Type().Underlying().(*types.Map).Key())}
	ghostTypes[x.key+"/$dom0"] = &SType{Math: "set", Elem: goT(ins.X.Type().Underlying().(*types.Map).Key())}
	ghostTypes[x.key+"/$count"] = intT
	ghostTypes[x.key+"/$len0"] = intT
}

func iterKey(r *ssa.Range) string { return "visited." + r.Name() }

func (x *Exec) execNext(fr *Frame, st *State, ins *ssa.Next) {
	if ins.IsString {
		panic(unsupported("range over string"))
	}
	rng := ins.Iter.(*ssa.Range)
	m := x.get(fr, rng).(VScalar).T
	mt := rng.X.Type().Underlying().(*types.Map)
	dom, _, _, ks, _ := mapNames(rng.X.Type())
	d := x.heapGet(st, dom, ArrSort(SInt, ArrSort(ks, SBool)))
	visited := st.ghost[iterKey(rng)].(VSet).T
	k := x.fresh("key", ks)
	ok := x.fresh("more", SBool)
	md := Select(d, m)
	nonnil := Not(Eq(m, IntLit(0)))
	// ok => k is an unvisited key; !ok => every key is visited
	x.assume(Implies(ok, And(nonnil, Select(md, k), Not(Select(visited, k)))))
	kq := Term{"kk", ks}
	x.assume(Implies(Not(ok), Term{fmt.Sprintf("(forall ((kk %s)) (! (=> (and %s %s) %s) :pattern (%s)))", ks, nonnil.S, Select(md, kq).S, Select(visited, kq).S, Select(md, kq).S), SBool}))
	kv, _ := x.unflatten(mt.Key(), []Term{k})
	x.assumeTyped(st, kv, mt.Key())
	val, _ := x.mapLookup(st, rng.X.Type(), m, k)
	st.ghost[iterKey(rng)] = VSet{x.define("visited", Ite(ok, Store(visited, k, True), visited))}
	st.ghost["lastkey."+rng.Name()] = kv
	st.ghost["$visited"] = st.ghost[iterKey(rng)]
	if cnt, has := st.ghost["$count"]; has {
		c := cnt.(VScalar).T
		// counting facts: c is the number of keys visited so far, and these are pairwise different. If the map's
		// key set is what it was when the iteration started and every visited key belongs to it (no key was
		// inserted, visited and deleted again in between), then c < len0 while a key remains and c == len0 at
		// the end. When the loop writes no map of this type the first condition holds syntactically.
		dom0 := st.ghost["$dom0"].(VSet).T
		unmodified := Eq(md, dom0)
		if md.S == x.rangeDom0[rng] {
			unmodified = True
		}
		sub := Term{fmt.Sprintf("(forall ((kk %s)) (! (=> %s %s) :pattern (%s)))", ks, Select(visited, kq).S, Select(dom0, kq).S, Select(visited, kq).S), SBool}
		len0 := st.ghost["$len0"].(VScalar).T
		x.assume(Implies(And(st.pc, unmodified, sub, ok), Lt(c, len0)))
		x.assume(Implies(And(st.pc, unmodified, sub, Not(ok)), Eq(c, len0)))
		st.ghost["$count"] = VScalar{x.define("count", Ite(ok, Add(c, IntLit(1)), c))}
	}
	fr.vals[ins] = VTuple{[]Value{VScalar{ok}, kv, val}}
}

func (x *Exec) execSend(fr *Frame, st *State, ins *ssa.Send) {
	ch := x.get(fr, ins.Chan).(VScalar).T
	x.chanSendCheck(st, ins.Chan.Type().Underlying().(*types.Chan).Elem(), x.get(fr, ins.X), ins.Pos())
	x.chanSendHook(fr, st, ch, x.get(fr, ins.X), ins.Chan.Type(), ins.Pos())
}

func (x *Exec) chanSendHook(fr *Frame, st *State, ch Term, v Value, t types.Type, pos token.Pos) {
	// ghost log of sends per channel: sendcount[ch]++ and sendlog[ch][n] = first leaf of v
	cnt := x.heapGet(st, "C|sendcount", ArrSort(SInt, SInt))
	n := Select(cnt, ch)
	ts := x.flatten(v)
	if len(ts) > 0 && ts[0].Sort == SInt {
		lg := x.heapGet(st, "C|sendlog", ArrSort(SInt, ArrSort(SInt, SInt)))
		x.heapSet(st, "C|sendlog", x.define("h", Store(lg, ch, Store(Select(lg, ch), n, ts[0]))))
	}
	x.heapSet(st, "C|sendcount", x.define("h", Store(cnt, ch, Add(n, IntLit(1)))))
}

func (x *Exec) execSelect(fr *Frame, st *State, ins *ssa.Select) {
	// result tuple: (index int, recvOk bool, r_0 T_0, ... r_n-1 T_n-1)
	idx := x.fresh("selidx", SInt)
	lo := int64(0)
	if !ins.Blocking {
		lo = -1
	}
	x.assume(And(Le(IntLit(lo), idx), Lt(idx, IntLit(int64(len(ins.States))))))
	vals := []Value{VScalar{idx}, VScalar{x.fresh("selok", SBool)}}
	for i, s := range ins.States {
		if s.Dir == types.RecvOnly {
			elem := s.Chan.Type().Underlying().(*types.Chan).Elem()
			rv := x.havocValue(st, "selrecv", elem)
			x.chanRecvFacts(st, elem, rv, And(Eq(idx, IntLit(int64(i))), vals[1].(VScalar).T))
			x.recvZeroIfClosed(elem, rv, Or(Not(Eq(idx, IntLit(int64(i)))), vals[1].(VScalar).T))
			vals = append(vals, rv)
		} else {
			x.chanSendCheck(st, s.Chan.Type().Underlying().(*types.Chan).Elem(), x.get(fr, s.Send), s.Pos)
			// a send case: record the send if chosen (conditional ghost update)
			ch := x.get(fr, s.Chan).(VScalar).T
			cnt := x.heapGet(st, "C|sendcount", ArrSort(SInt, SInt))
			chosen := Eq(idx, IntLit(int64(i)))
			x.heapSet(st, "C|sendcount", x.define("h", Ite(chosen, Store(cnt, ch, Add(Select(cnt, ch), IntLit(1))), cnt)))
		}
	}
	fr.vals[ins] = VTuple{vals}
}

// derivedAddr: the address comes from a FieldAddr/IndexAddr, whose own nil/bounds obligation covers it.
func derivedAddr(v ssa.Value) bool {
	switch v.(type) {
	case *ssa.FieldAddr, *ssa.IndexAddr:
		return true
	}
	return false
}

// channel protocols: "channel T nonnil" makes every send of a T an obligation (value != nil) and lets
// every successful receive assume it.
func (x *Exec) chanProto(elem types.Type) bool {
	if x.C.ChanNonNil == nil {
		return false
	}
	n := typeName(elem)
	return x.C.ChanNonNil[n] || x.C.ChanInv[n] != nil
}

// recvZeroIfClosed: a receive from a closed channel yields the zero value of the element type.
func (x *Exec) recvZeroIfClosed(elem types.Type, v Value, ok Term) {
	if !x.chanProto(elem) {
		return
	}
	defer func() { recover() }()
	zs := x.flatten(x.zeroValue(elem))
	vs := x.flatten(v)
	if len(zs) != len(vs) {
		return
	}
	for i := range vs {
		if vs[i].Sort == zs[i].Sort {
			x.assume(Implies(Not(ok), Eq(vs[i], zs[i])))
		}
	}
}

func (x *Exec) chanRecvFacts(st *State, elem types.Type, v Value, ok Term) {
	if !x.chanProto(elem) {
		return
	}
	if x.C.ChanNonNil[typeName(elem)] {
		x.assume(Implies(ok, Not(Eq(x.flatten(v)[0], IntLit(0)))))
	}
	if s, isS := v.(VScalar); isS {
		x.assume(Implies(ok, Le(s.T, st.wm)))
	}
	if c := x.C.ChanInv[typeName(elem)]; c != nil {
		env := &SpecEnv{x: x, st: st, vars: map[string]SVal{"v": {v, goT(elem)}}, pkg: x.typesPkg(x.C.ChanInvPkg[typeName(elem)])}
		g := x.safeEvalBool(env, c, "channel protocol of "+typeName(elem))
		x.assume(Implies(And(st.pc, ok), g))
		x.trusted["channel protocol of "+typeName(elem)+": checked at every send; assumed to still hold when the value is received"] = true
	}
}

func (x *Exec) chanSendCheck(st *State, elem types.Type, v Value, pos token.Pos) {
	if !x.chanProto(elem) {
		return
	}
	if x.C.ChanNonNil[typeName(elem)] {
		x.check(st, "chan-protocol", nil, pos, x.srcAt(pos)+": value sent is non-nil", Not(Eq(x.flatten(v)[0], IntLit(0))))
	}
	if c := x.C.ChanInv[typeName(elem)]; c != nil {
		env := &SpecEnv{x: x, st: st, vars: map[string]SVal{"v": {v, goT(elem)}}, pkg: x.typesPkg(x.C.ChanInvPkg[typeName(elem)])}
		g := x.safeEvalBool(env, c, "channel protocol of "+typeName(elem))
		x.check(st, "chan-protocol", nil, pos, x.srcAt(pos)+": "+c.Text, g)
	}
}

// initGhostBools: a ghost field of type bool starts out false on a newly allocated object (ghost fields of other
// types are given their value by exit clauses of constructors and are unconstrained until then).
func (x *Exec) initGhostBools(st *State, elem types.Type, r Term) {
	n, ok := elem.(*types.Named)
	if !ok || n.Obj().Pkg() == nil || x.C == nil {
		return
	}
	prefix := x.P.Short[n.Obj().Pkg().Path()] + "." + n.Obj().Name() + "."
	var names []string
	for k, gf := range x.C.GhostFields {
		if strings.HasPrefix(k, prefix) && gf.T != nil && gf.T.Kind == "name" && gf.T.Name == "bool" && gf.Name != "$wf" {
			names = append(names, k)
		}
	}
	sort.Strings(names)
	for _, k := range names {
		gf := x.C.GhostFields[k]
		arr := "G|" + gf.Pkg + "." + gf.Owner + "." + gf.Name + "|"
		a := x.heapGet(st, arr, ArrSort(SInt, SBool))
		x.heapSet(st, arr, x.define("h", Store(a, r, False)))
	}
}
