package main

// Symbolic values: shape per Go type, flattening to SMT leaves.

import (
	"fmt"
	"go/types"
	"strings"

	"golang.org/x/tools/go/ssa"
)

type Value interface{}

type (
	// VScalar: bool, integers, floats, Ref (pointers to whole heap objects, maps, chans), func ids.
	VScalar struct{ T Term }
	// VStr: a Go string = immutable base Str + window.
	VStr struct{ Base, Off, Len Term }
	// VSlice: slice header.
	VSlice struct{ Arr, Off, Len, Cap Term }
	// VIface: interface value.
	VIface struct{ Tag, Box Term }
	// VStruct: struct by value.
	VStruct struct{ Fields []Value }
	// VTuple: multi-value.
	VTuple struct{ Elems []Value }
	// VPtr: a pointer resolved to a place (local cell, field, element).
	VPtr struct{ P *Place }
	// VArr: a Go array value [N]T, one SMT array per leaf of T.
	VArr struct {
		Leaves []Term
		N      int64
	}
	// VFunc: a function value known statically (closure with bindings).
	VFunc struct {
		Fn       *ssa.Function
		Bindings []Value
	}
	// Math values (contracts only)
	VSet  struct{ T Term } // (Array K Bool)
	VMMap struct {
		Dom  Term   // (Array K Bool)
		Vals []Term // (Array K leaf) per leaf of the value type
	}
	VSeq struct {
		Arrs []Term // (Array Int leaf) per leaf of the element type
		Len  Term
	}
)

type PlaceKind int

const (
	PCell  PlaceKind = iota // local cell (non-escaping Alloc), with path into it
	PField                  // heap struct object: (ref, struct type, field path)
	PElem                   // slice/array-backing element: (arr ref, index, elem type, field path)
	PBox                    // heap box for a non-struct type: (ref, type)
	PGlobal                 // package-level variable
)

type Place struct {
	Kind   PlaceKind
	Alloc  *ssa.Alloc
	Global *ssa.Global
	Path   []int      // field path inside the cell / object / element
	Ref    Term       // PField, PBox: object ref; PElem: array ref
	Idx    Term       // PElem: absolute index in backing array
	Root   types.Type // PField: struct type; PElem: element type; PBox: boxed type; PCell: alloc elem type
	Typ    types.Type // type of the location itself
	// for array-typed cells indexed symbolically
	ArrIdx *Term
}

// SType: a Go type or a math type (contracts).
type SType struct {
	G    types.Type
	Math string // "", "set", "seq", "mmap"
	Key  *SType
	Elem *SType
}

func goT(t types.Type) *SType { return &SType{G: t} }

func (t *SType) String() string {
	if t == nil {
		return "<nil>"
	}
	switch t.Math {
	case "":
		if t.G == nil {
			return "<untyped>"
		}
		return t.G.String()
	case "set":
		return "set[" + t.Elem.String() + "]"
	case "seq":
		return "seq[" + t.Elem.String() + "]"
	case "mmap":
		return "mmap[" + t.Key.String() + "]" + t.Elem.String()
	}
	return "?"
}

type Leaf struct {
	Name string
	Sort Sort
}

func basicSort(b *types.Basic) Sort {
	switch {
	case b.Info()&types.IsBoolean != 0:
		return SBool
	case b.Info()&types.IsInteger != 0:
		return SInt
	case b.Info()&types.IsFloat != 0:
		return SF64
	case b.Info()&types.IsString != 0:
		return SStr
	case b.Kind() == types.UnsafePointer:
		return SInt
	case b.Kind() == types.UntypedNil:
		return SInt
	}
	panic(unsupported("basic type " + b.String()))
}

type unsupportedErr struct{ msg string }

func (u unsupportedErr) Error() string { return u.msg }
func unsupported(msg string) error     { return unsupportedErr{msg} }

// leavesOf flattens a Go type into SMT leaves (strings in canonical single-Str form).
func leavesOf(t types.Type) []Leaf {
	switch u := t.Underlying().(type) {
	case *types.Basic:
		return []Leaf{{"", basicSort(u)}}
	case *types.Pointer, *types.Map, *types.Chan, *types.Signature:
		return []Leaf{{"", SInt}}
	case *types.Slice:
		return []Leaf{{"arr", SInt}, {"off", SInt}, {"len", SInt}, {"cap", SInt}}
	case *types.Interface:
		return []Leaf{{"tag", SInt}, {"box", SInt}}
	case *types.Struct:
		var out []Leaf
		for i := 0; i < u.NumFields(); i++ {
			for _, l := range leavesOf(u.Field(i).Type()) {
				n := u.Field(i).Name()
				if l.Name != "" {
					n += "." + l.Name
				}
				out = append(out, Leaf{n, l.Sort})
			}
		}
		return out
	case *types.Array:
		var out []Leaf
		for _, l := range leavesOf(u.Elem()) {
			out = append(out, Leaf{l.Name, ArrSort(SInt, l.Sort)})
		}
		return out
	case *types.Tuple:
		var out []Leaf
		for i := 0; i < u.Len(); i++ {
			for _, l := range leavesOf(u.At(i).Type()) {
				out = append(out, Leaf{fmt.Sprintf("%d.%s", i, l.Name), l.Sort})
			}
		}
		return out
	case *types.TypeParam:
		panic(unsupported("type parameter " + t.String()))
	}
	panic(unsupported("type " + t.String()))
}

func leavesOfS(t *SType) []Leaf {
	switch t.Math {
	case "":
		return leavesOf(t.G)
	case "set":
		k := leavesOfS(t.Elem)
		if len(k) != 1 {
			panic(unsupported("set of multi-leaf type " + t.String()))
		}
		return []Leaf{{"", ArrSort(k[0].Sort, SBool)}}
	case "mmap":
		k := leavesOfS(t.Key)
		if len(k) != 1 {
			panic(unsupported("mmap with multi-leaf key " + t.String()))
		}
		out := []Leaf{{"dom", ArrSort(k[0].Sort, SBool)}}
		for _, l := range leavesOfS(t.Elem) {
			out = append(out, Leaf{"val." + l.Name, ArrSort(k[0].Sort, l.Sort)})
		}
		return out
	case "seq":
		var out []Leaf
		for _, l := range leavesOfS(t.Elem) {
			out = append(out, Leaf{"arr." + l.Name, ArrSort(SInt, l.Sort)})
		}
		out = append(out, Leaf{"len", SInt})
		return out
	}
	panic("bad SType")
}

// flatten turns a value into its leaves (canonical form).
func (x *Exec) flatten(v Value) []Term {
	switch v := v.(type) {
	case VScalar:
		return []Term{v.T}
	case VStr:
		return []Term{x.strTerm(v)}
	case VSlice:
		return []Term{v.Arr, v.Off, v.Len, v.Cap}
	case VIface:
		return []Term{v.Tag, v.Box}
	case VStruct:
		var out []Term
		for _, f := range v.Fields {
			out = append(out, x.flatten(f)...)
		}
		return out
	case VTuple:
		var out []Term
		for _, f := range v.Elems {
			out = append(out, x.flatten(f)...)
		}
		return out
	case VArr:
		return v.Leaves
	case VPtr:
		return []Term{x.refOfPtr(v)}
	case VFunc:
		return []Term{x.funcID(v.Fn)}
	case VSet:
		return []Term{v.T}
	case VMMap:
		return append([]Term{v.Dom}, v.Vals...)
	case VSeq:
		return append(append([]Term{}, v.Arrs...), v.Len)
	case nil:
		panic("flatten nil value")
	}
	panic(fmt.Sprintf("flatten %T", v))
}

// unflatten rebuilds a value of Go type t from leaves; returns remaining leaves.
func (x *Exec) unflatten(t types.Type, ts []Term) (Value, []Term) {
	switch u := t.Underlying().(type) {
	case *types.Basic:
		if u.Info()&types.IsString != 0 {
			return VStr{ts[0], IntLit(0), x.slen(ts[0])}, ts[1:]
		}
		return VScalar{ts[0]}, ts[1:]
	case *types.Pointer, *types.Map, *types.Chan, *types.Signature:
		return VScalar{ts[0]}, ts[1:]
	case *types.Slice:
		return VSlice{ts[0], ts[1], ts[2], ts[3]}, ts[4:]
	case *types.Interface:
		return VIface{ts[0], ts[1]}, ts[2:]
	case *types.Struct:
		var fs []Value
		for i := 0; i < u.NumFields(); i++ {
			var f Value
			f, ts = x.unflatten(u.Field(i).Type(), ts)
			fs = append(fs, f)
		}
		return VStruct{fs}, ts
	case *types.Array:
		n := len(leavesOf(u.Elem()))
		return VArr{append([]Term{}, ts[:n]...), u.Len()}, ts[n:]
	case *types.Tuple:
		var fs []Value
		for i := 0; i < u.Len(); i++ {
			var f Value
			f, ts = x.unflatten(u.At(i).Type(), ts)
			fs = append(fs, f)
		}
		return VTuple{fs}, ts
	}
	panic(unsupported("unflatten " + t.String()))
}

func (x *Exec) unflattenS(t *SType, ts []Term) Value {
	switch t.Math {
	case "":
		v, _ := x.unflatten(t.G, ts)
		return v
	case "set":
		return VSet{ts[0]}
	case "mmap":
		return VMMap{ts[0], append([]Term{}, ts[1:]...)}
	case "seq":
		return VSeq{append([]Term{}, ts[:len(ts)-1]...), ts[len(ts)-1]}
	}
	panic("bad SType")
}

// typeName gives a stable textual name of a type for heap-array naming.
func typeName(t types.Type) string {
	if b, ok := t.Underlying().(*types.Basic); ok {
		if _, named := t.(*types.Named); !named {
			switch b.Kind() {
			case types.Uint8:
				return "uint8"
			case types.Int32:
				return "int32"
			}
			return b.Name()
		}
	}
	return types.TypeString(t, func(p *types.Package) string {
		path := p.Path()
		path = strings.TrimPrefix(path, mainMod+"/")
		return path
	})
}

// zeroValue of a Go type.
func (x *Exec) zeroValue(t types.Type) Value {
	switch u := t.Underlying().(type) {
	case *types.Basic:
		switch {
		case u.Info()&types.IsBoolean != 0:
			return VScalar{False}
		case u.Info()&types.IsInteger != 0:
			return VScalar{IntLit(0)}
		case u.Info()&types.IsFloat != 0:
			return VScalar{x.f64const("0")}
		case u.Info()&types.IsString != 0:
			return x.strLit("")
		default:
			return VScalar{IntLit(0)}
		}
	case *types.Pointer, *types.Map, *types.Chan, *types.Signature:
		return VScalar{IntLit(0)}
	case *types.Slice:
		return VSlice{IntLit(0), IntLit(0), IntLit(0), IntLit(0)}
	case *types.Interface:
		return VIface{IntLit(0), IntLit(0)}
	case *types.Struct:
		var fs []Value
		for i := 0; i < u.NumFields(); i++ {
			fs = append(fs, x.zeroValue(u.Field(i).Type()))
		}
		return VStruct{fs}
	case *types.Array:
		var ls []Term
		for _, zt := range x.flatten(x.zeroValue(u.Elem())) {
			ls = append(ls, x.constArray(SInt, zt))
		}
		return VArr{ls, u.Len()}
	case *types.Tuple:
		var fs []Value
		for i := 0; i < u.Len(); i++ {
			fs = append(fs, x.zeroValue(u.At(i).Type()))
		}
		return VTuple{fs}
	}
	panic(unsupported("zero value of " + t.String()))
}

// intRange returns the inclusive range of an integer type (64-bit platform).
func intRange(t types.Type) (lo, hi string, ok bool) {
	b, isB := t.Underlying().(*types.Basic)
	if !isB || b.Info()&types.IsInteger == 0 {
		return "", "", false
	}
	switch b.Kind() {
	case types.Int8:
		return "-128", "127", true
	case types.Int16:
		return "-32768", "32767", true
	case types.Int32:
		return "-2147483648", "2147483647", true
	case types.Int, types.Int64, types.UntypedInt, types.UntypedRune:
		return "-9223372036854775808", "9223372036854775807", true
	case types.Uint8:
		return "0", "255", true
	case types.Uint16:
		return "0", "65535", true
	case types.Uint32:
		return "0", "4294967295", true
	case types.Uint, types.Uint64, types.Uintptr:
		return "0", "18446744073709551615", true
	}
	return "", "", false
}

func intBits(t types.Type) (bits int, signed bool) {
	b := t.Underlying().(*types.Basic)
	switch b.Kind() {
	case types.Int8:
		return 8, true
	case types.Int16:
		return 16, true
	case types.Int32:
		return 32, true
	case types.Int, types.Int64, types.UntypedInt, types.UntypedRune:
		return 64, true
	case types.Uint8:
		return 8, false
	case types.Uint16:
		return 16, false
	case types.Uint32:
		return 32, false
	case types.Uint, types.Uint64, types.Uintptr:
		return 64, false
	}
	return 64, true
}

func pow2(n int) string {
	// decimal text of 2^n for n <= 64
	var v [2]uint64 // not needed; use big via strings
	_ = v
	r := []byte{'1'}
	for i := 0; i < n; i++ {
		carry := 0
		for j := len(r) - 1; j >= 0; j-- {
			d := int(r[j]-'0')*2 + carry
			r[j] = byte('0' + d%10)
			carry = d / 10
		}
		if carry > 0 {
			r = append([]byte{byte('0' + carry)}, r...)
		}
	}
	return string(r)
}

// wrapInt reduces a mathematical integer term to the range of type t.
// exactHint: the unreduced value is within one modulus of the range (add/sub of in-range operands).
func wrapInt(v Term, t types.Type, nearHint bool) Term {
	lo, hi, ok := intRange(t)
	if !ok {
		return v
	}
	bits, signed := intBits(t)
	mod := IntLitStr(pow2(bits))
	if nearHint {
		return Ite(Gt(v, IntLitStr(hi)), Sub(v, mod), Ite(Lt(v, IntLitStr(lo)), Add(v, mod), v))
	}
	if !signed {
		return App("mod", SInt, v, mod)
	}
	half := IntLitStr(pow2(bits - 1))
	return Sub(App("mod", SInt, Add(v, half), mod), half)
}

func inRange(v Term, t types.Type) Term {
	lo, hi, ok := intRange(t)
	if !ok {
		return True
	}
	return And(Le(IntLitStr(lo), v), Le(v, IntLitStr(hi)))
}
