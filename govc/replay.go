package main

// Replay of solver models on the real code through an overlay-injected in-package test.

import (
	"bytes"
	"context"
	"encoding/json"
	"fmt"
	"go/types"
	"os"
	"os/exec"
	"path/filepath"
	"strconv"
	"strings"
	"time"

	"golang.org/x/tools/go/ssa"
)

// modelQuery asks the solver for values of terms in a (candidate) model of the failed obligation.
func modelQuery(x *Exec, o *Obligation, terms []string) map[string]string {
	if len(terms) == 0 {
		return map[string]string{}
	}
	base := x.smtFor([]*Obligation{o}, 0)
	// incremental core (push) and no set-logic: z3 then keeps its candidate model after "unknown"
	base = "(push)\n" + strings.Replace(base, "(set-logic ALL)\n", "", 1)
	base = strings.Replace(base, "(check-sat)\n", x.modelExtra+"(check-sat)\n", 1)
	for _, s := range []string{"z3-5.1.0", "z3-4.8.12"} {
		q := base + "(get-value (" + strings.Join(terms, " ") + "))\n"
		f, err := os.CreateTemp(scratchDir(), "m*.smt2")
		if err != nil {
			return nil
		}
		f.WriteString(q)
		f.Close()
		var spec *solverSpec
		for i := range solvers {
			if solvers[i].name == s {
				spec = &solvers[i]
			}
		}
		argv := spec.argv(f.Name(), 10, 0)
		ctx, cancel := context.WithTimeout(context.Background(), 14*time.Second)
		out, _ := exec.CommandContext(ctx, argv[0], argv[1:]...).CombinedOutput()
		cancel()
		os.Remove(f.Name())
		txt := string(out)
		first := statusLine(txt)
		if first != "sat" && first != "unknown" {
			continue
		}
		i := strings.Index(txt, first+"\n")
		if i < 0 {
			continue
		}
		rest := txt[i+len(first)+1:]
		if strings.Contains(rest, "(error") && !strings.Contains(rest, "((") {
			continue
		}
		return parseGetValue(rest, terms)
	}
	return nil
}

type replayArg struct {
	GoExpr string
	Desc   string
}

// goBytes renders a byte string as a Go expression.
func goBytes(b []byte) string {
	return "[]byte(" + strconv.Quote(string(b)) + ")"
}

// extractArg builds a Go expression for one parameter from the model. ok=false if unsupported.
func extractArg(x *Exec, o *Obligation, v Value, t types.Type) (expr string, ok bool) {
	const maxLen = 4096
	getInt := func(term string) (int64, bool) {
		m := modelQuery(x, o, []string{term})
		if m == nil {
			return 0, false
		}
		return smtIntValue(m[term])
	}
	strBytes := func(base Term, off Term, n int64) ([]byte, bool) {
		if n < 0 || n > maxLen {
			return nil, false
		}
		var terms []string
		for k := int64(0); k < n; k++ {
			terms = append(terms, x.sat(base, At(off, IntLit(k))).S)
		}
		m := modelQuery(x, o, terms)
		if m == nil && n > 0 {
			return nil, false
		}
		out := make([]byte, n)
		for k, tm := range terms {
			b, ok := smtIntValue(m[tm])
			if !ok {
				return nil, false
			}
			out[k] = byte(b)
		}
		return out, true
	}
	sliceBytes := func(s VSlice) ([]byte, bool) {
		n, ok := getInt(s.Len.S)
		if !ok || n < 0 || n > maxLen {
			return nil, false
		}
		arr := x.heapGet(x.entry, "E|uint8|", ArrSort(SInt, ArrSort(SInt, SInt)))
		var terms []string
		for k := int64(0); k < n; k++ {
			terms = append(terms, Select(Select(arr, s.Arr), At(s.Off, IntLit(k))).S)
		}
		m := modelQuery(x, o, terms)
		if m == nil && n > 0 {
			return nil, false
		}
		out := make([]byte, n)
		for k, tm := range terms {
			b, ok := smtIntValue(m[tm])
			if !ok {
				return nil, false
			}
			out[k] = byte(b)
		}
		return out, true
	}
	switch u := t.Underlying().(type) {
	case *types.Basic:
		switch {
		case u.Info()&types.IsBoolean != 0:
			m := modelQuery(x, o, []string{v.(VScalar).T.S})
			if m == nil {
				return "", false
			}
			return m[v.(VScalar).T.S], true
		case u.Info()&types.IsInteger != 0:
			n, ok := getInt(v.(VScalar).T.S)
			if !ok {
				return "", false
			}
			return fmt.Sprintf("%s(%d)", types.TypeString(t, func(p *types.Package) string { return "" }), n), true
		case u.Info()&types.IsString != 0:
			s := v.(VStr)
			n, ok := getInt(s.Len.S)
			if !ok {
				return "", false
			}
			b, ok := strBytes(s.Base, s.Off, n)
			if !ok {
				return "", false
			}
			return strconv.Quote(string(b)), true
		}
	case *types.Slice:
		s := v.(VSlice)
		if eb, ok := u.Elem().Underlying().(*types.Basic); ok && eb.Kind() == types.Uint8 {
			arrv, ok := getInt(s.Arr.S)
			if ok && arrv == 0 {
				return "[]byte(nil)", true
			}
			b, ok := sliceBytes(s)
			if !ok {
				return "", false
			}
			return goBytes(b), true
		}
		if es, ok := u.Elem().Underlying().(*types.Slice); ok {
			if eb, ok := es.Elem().Underlying().(*types.Basic); ok && eb.Kind() == types.Uint8 {
				n, ok := getInt(s.Len.S)
				if !ok || n < 0 || n > 64 {
					return "", false
				}
				var parts []string
				for k := int64(0); k < n; k++ {
					p := &Place{Kind: PElem, Ref: s.Arr, Idx: At(s.Off, IntLit(k)), Root: u.Elem(), Typ: u.Elem()}
					x.quiet++
					ev := x.loadPlace(x.entry, p).(VSlice)
					x.quiet--
					b, ok := sliceBytes(ev)
					if !ok {
						return "", false
					}
					parts = append(parts, goBytes(b))
				}
				return "[][]byte{" + strings.Join(parts, ", ") + "}", true
			}
		}
	}
	return "", false
}

// tryReplay attempts to reproduce a failed obligation on the real code. It fills rec and returns
// true when the real code was observed to violate the obligation.
func tryReplay(P *Program, j *checkJob, o *Obligation, rec map[string]any) bool {
	x := j.res.exec
	fn := j.fn
	if x == nil || fn.Signature.Recv() != nil || fn.Parent() != nil || fn.Pkg == nil {
		rec["replay"] = "not attempted: only receiver-less top-level functions with scalar/string/[]byte/[][]byte parameters are replayed"
		return false
	}
	if o.Result == nil || (o.Result.Status != "sat" && o.Result.Status != "unknown") {
		rec["replay"] = "not attempted: solver gave no candidate model"
		return false
	}
	var args []string
	fr := x.auxFrames
	// prefer small inputs: cap every length-like leaf of the parameters
	x.modelExtra = ""
	if len(fr) > 0 {
		var lens []Term
		for _, pv := range fr[0].params {
			lens = append(lens, lengthLeaves(x, pv)...)
		}
		if len(lens) > 0 {
			for _, cap := range []int64{2, 4, 8, 32, 256} {
				extra := ""
				for _, l := range lens {
					extra += fmt.Sprintf("(assert (<= %s %d))\n", l.S, cap)
				}
				x.modelExtra = extra
				if m := modelQuery(x, o, []string{lens[0].S}); m != nil {
					break
				}
				x.modelExtra = ""
			}
		}
	}
	if len(fr) == 0 {
		rec["replay"] = "not attempted: no frame"
		return false
	}
	top := fr[0]
	for i, p := range fn.Params {
		e, ok := extractArg(x, o, top.params[i], p.Type())
		if !ok {
			rec["replay"] = "not attempted: parameter " + p.Name() + " of type " + p.Type().String() + " cannot be built from the model"
			return false
		}
		args = append(args, e)
	}
	rec["inputs"] = args
	pkgName := fn.Pkg.Pkg.Name()
	expectPanic := safetyKinds[o.Kind]
	var src bytes.Buffer
	fmt.Fprintf(&src, "package %s\n\nimport (\n\t\"fmt\"\n\t\"testing\"\n)\n\n", pkgName)
	fmt.Fprintf(&src, "func TestGovcReplay(t *testing.T) {\n")
	fmt.Fprintf(&src, "\tdefer func() {\n\t\tif r := recover(); r != nil {\n\t\t\tfmt.Printf(\"GOVC-REPLAY panic: %%v\\n\", r)\n\t\t}\n\t}()\n")
	var call string
	call = fn.Name() + "(" + strings.Join(args, ", ") + ")"
	nres := fn.Signature.Results().Len()
	if nres == 0 {
		fmt.Fprintf(&src, "\t%s\n\tfmt.Println(\"GOVC-REPLAY returned\")\n", call)
	} else {
		var names []string
		for i := 0; i < nres; i++ {
			names = append(names, fmt.Sprintf("r%d", i))
		}
		fmt.Fprintf(&src, "\t%s := %s\n", strings.Join(names, ", "), call)
		fmt.Fprintf(&src, "\tfmt.Printf(\"GOVC-REPLAY returned")
		for range names {
			fmt.Fprintf(&src, " %%#v")
		}
		fmt.Fprintf(&src, "\\n\", %s)\n", strings.Join(names, ", "))
	}
	fmt.Fprintf(&src, "}\n")
	rec["test_source"] = src.String()
	dir := filepath.Join(repoRoot(), scopeDirs[P.Short[fn.Pkg.Pkg.Path()]])
	rec["package_dir"] = dir
	out, err := runOverlayTest(dir, src.String(), "TestGovcReplay")
	rec["replay_output"] = truncate(out, 4000)
	if err != nil {
		rec["replay_error"] = err.Error()
	}
	if expectPanic {
		if strings.Contains(out, "GOVC-REPLAY panic:") {
			rec["replay"] = "confirmed: the real function panics on the solver's input"
			return true
		}
		rec["replay"] = "not confirmed: the real function did not panic on the candidate input"
		return false
	}
	// functional obligations: compare the real result with the model's result
	if o.Kind == "post" && nres == 1 {
		if rb, ok := fn.Signature.Results().At(0).Type().Underlying().(*types.Basic); ok && rb.Info()&types.IsBoolean != 0 {
			// the model's return value
			rv := x.lastResult
			if s, ok := rv.(VScalar); ok {
				m := modelQuery(x, o, []string{s.T.S})
				if m != nil {
					want := m[s.T.S]
					if strings.Contains(out, "GOVC-REPLAY returned "+want) {
						rec["replay"] = "confirmed: the real function returns " + want + " on the solver's input, which violates the postcondition in the model"
						return true
					}
				}
			}
		}
	}
	if strings.Contains(out, "GOVC-REPLAY panic:") {
		rec["replay"] = "the real function panics on the candidate input"
		return true
	}
	rec["replay"] = "not confirmed"
	return false
}

var _ = ssa.NaiveForm

// runOverlayTest injects an in-package test file through -overlay and runs it.
func runOverlayTest(pkgDir, src, testName string) (string, error) {
	tmp, err := os.MkdirTemp(scratchDir(), "replay")
	if err != nil {
		return "", err
	}
	defer os.RemoveAll(tmp)
	tf := filepath.Join(tmp, "zz_govc_replay_test.go")
	if err := os.WriteFile(tf, []byte(src), 0o644); err != nil {
		return "", err
	}
	repl := map[string]string{filepath.Join(pkgDir, "zz_govc_replay_test.go"): tf}
	if ovf := os.Getenv("GOVC_OVERLAY"); ovf != "" {
		// selftest mutants: the replay must run the same (mutated) source the verifier saw
		if data, err := os.ReadFile(ovf); err == nil {
			m := map[string]string{}
			if json.Unmarshal(data, &m) == nil {
				for k, v := range m {
					repl[k] = v
				}
			}
		}
	}
	ov := map[string]any{"Replace": repl}
	ovData, _ := json.Marshal(ov)
	ovFile := filepath.Join(tmp, "overlay.json")
	os.WriteFile(ovFile, ovData, 0o644)
	ctx, cancel := context.WithTimeout(context.Background(), 180*time.Second)
	defer cancel()
	cmd := exec.CommandContext(ctx, "bash", "-c", fmt.Sprintf("ulimit -v 8000000; cd %q && go test -overlay %q -vet=off -count=1 -v -timeout 600s -run '^%s$' . 2>&1", pkgDir, ovFile, testName))
	cmd.Env = append(os.Environ(), "GOFLAGS=-mod=mod", "GOPROXY=off", "GOSUMDB=off", "GOTOOLCHAIN=local")
	out, err := cmd.CombinedOutput()
	return string(out), err
}

func cmdReplay(args []string) {
	if len(args) < 1 {
		usage()
	}
	data, err := os.ReadFile(args[0])
	if err != nil {
		fmt.Fprintln(os.Stderr, err)
		os.Exit(2)
	}
	var rec map[string]any
	if err := json.Unmarshal(data, &rec); err != nil {
		fmt.Fprintln(os.Stderr, err)
		os.Exit(2)
	}
	fmt.Printf("obligation: %v\nkind: %v\nwhere: %v\n", rec["obligation"], rec["kind"], rec["where"])
	src, _ := rec["test_source"].(string)
	dir, _ := rec["package_dir"].(string)
	if src == "" {
		fmt.Println("no replayable input recorded; solver output:")
		fmt.Println(rec["solver_output"])
		os.Exit(1)
	}
	out, _ := runOverlayTest(dir, src, "TestGovcReplay")
	fmt.Println(out)
	if strings.Contains(out, "GOVC-REPLAY panic:") || rec["replay"] != nil && strings.HasPrefix(fmt.Sprint(rec["replay"]), "confirmed") {
		os.Exit(1)
	}
}

// runBoundedTest runs a bounded stand-in: an in-package test kept under /verif/bounded/.
func runBoundedTest(b PlanBounded, tier string, seed int) map[string]any {
	res := map[string]any{"name": b.Name, "bound": b.Bound, "label": "bounded", "ok": false}
	src, err := os.ReadFile(filepath.Join(verifRoot(), "bounded", b.File))
	if err != nil {
		res["error"] = err.Error()
		return res
	}
	dir := filepath.Join(repoRoot(), scopeDirs[b.Pkg])
	os.Setenv("GOVC_BOUNDED_TIER", tier)
	os.Setenv("GOVC_BOUNDED_SEED", strconv.Itoa(seed))
	t0 := time.Now()
	out, err := runOverlayTest(dir, string(src), b.Test)
	res["seconds"] = round3(time.Since(t0).Seconds())
	// the test prints "GOVC-BOUNDED cases=<n> distinct=<m>" and fails on a violation
	for _, ln := range strings.Split(out, "\n") {
		if strings.HasPrefix(ln, "GOVC-BOUNDED ") {
			for _, f := range strings.Fields(ln)[1:] {
				kv := strings.SplitN(f, "=", 2)
				if len(kv) == 2 {
					if n, e := strconv.Atoi(kv[1]); e == nil {
						res[kv[0]] = n
					}
				}
			}
		}
		if strings.HasPrefix(ln, "GOVC-BOUNDED-FAIL") {
			res["failure"] = ln
		}
	}
	if err == nil && strings.Contains(out, "\nok") || strings.HasPrefix(out, "ok") {
		res["ok"] = true
	} else {
		res["output"] = truncate(out, 3000)
	}
	return res
}

// lengthLeaves lists the length terms of a parameter value (strings, slices, nested byte slices are capped lazily).
func lengthLeaves(x *Exec, v Value) []Term {
	switch v := v.(type) {
	case VStr:
		return []Term{v.Len}
	case VSlice:
		return []Term{v.Len}
	case VStruct:
		var out []Term
		for _, f := range v.Fields {
			out = append(out, lengthLeaves(x, f)...)
		}
		return out
	}
	return nil
}
