package main

// Evaluation of contract expressions into symbolic values.

import (
	"regexp"
	"fmt"
	"go/constant"
	"go/types"
	"sort"
	"strings"

	"go/token"
	"golang.org/x/tools/go/ssa"
)

type SVal struct {
	V Value
	T *SType
}

type SpecEnv struct {
	x     *Exec
	st    *State
	old   *State
	vars  map[string]SVal
	pkg   *types.Package
	fr    *Frame    // for locals (loop invariants); may be nil
	li    *loopInfo // loop whose invariants are being evaluated; may be nil
	phi   map[*ssa.Phi]Value
	quant int
	self  *SpecFunc // spec function being defined (recursive)
	noHeap bool
}

func (e *SpecEnv) with(name string, v SVal) *SpecEnv {
	n := *e
	n.vars = make(map[string]SVal, len(e.vars)+1)
	for k, val := range e.vars {
		n.vars[k] = val
	}
	n.vars[name] = v
	return &n
}

type specErr struct{ msg string }

func (s specErr) Error() string { return s.msg }

func sfail(format string, a ...any) {
	panic(specErr{fmt.Sprintf(format, a...)})
}

var untypedInt = goT(types.Typ[types.UntypedInt])
var boolT = goT(types.Typ[types.Bool])
var intT = goT(types.Typ[types.Int])
var stringT = goT(types.Typ[types.String])

func (x *Exec) evalBool(env *SpecEnv, e Expr) Term {
	v := x.eval(env, e)
	s, ok := v.V.(VScalar)
	if !ok || s.T.Sort != SBool {
		sfail("expected a boolean expression, got %T", v.V)
	}
	return s.T
}

func (x *Exec) evalInt(env *SpecEnv, e Expr) Term {
	v := x.eval(env, e)
	s, ok := v.V.(VScalar)
	if !ok || s.T.Sort != SInt {
		sfail("expected an integer expression")
	}
	return s.T
}

func isIntT(t *SType) bool {
	if t == nil || t.Math != "" || t.G == nil {
		return false
	}
	b, ok := t.G.Underlying().(*types.Basic)
	return ok && b.Info()&types.IsInteger != 0
}

func (x *Exec) resolveType(env *SpecEnv, t *TypeExpr) *SType {
	switch t.Kind {
	case "ptr":
		return goT(types.NewPointer(x.resolveType(env, t.Elem).G))
	case "slice":
		return goT(types.NewSlice(x.resolveType(env, t.Elem).G))
	case "map":
		return goT(types.NewMap(x.resolveType(env, t.Key).G, x.resolveType(env, t.Elem).G))
	case "set":
		return &SType{Math: "set", Elem: x.resolveType(env, t.Elem)}
	case "seq":
		return &SType{Math: "seq", Elem: x.resolveType(env, t.Elem)}
	case "mmap":
		return &SType{Math: "mmap", Key: x.resolveType(env, t.Key), Elem: x.resolveType(env, t.Elem)}
	case "inst":
		base := x.resolveType(env, &TypeExpr{Kind: "name", Name: t.Name})
		named, ok := base.G.(*types.Named)
		if !ok {
			sfail("%s is not a generic type", t.Name)
		}
		var targs []types.Type
		for _, a := range t.Args {
			targs = append(targs, x.resolveType(env, a).G)
		}
		inst, err := types.Instantiate(nil, named, targs, false)
		if err != nil {
			sfail("cannot instantiate %s: %v", t.Name, err)
		}
		return goT(inst)
	case "name":
		if t.Name == "struct{}" {
			return goT(types.NewStruct(nil, nil))
		}
		if t.Name == "any" {
			return goT(types.NewInterfaceType(nil, nil))
		}
		if obj := types.Universe.Lookup(t.Name); obj != nil {
			if tn, ok := obj.(*types.TypeName); ok {
				return goT(tn.Type())
			}
		}
		if i := strings.Index(t.Name, "."); i > 0 {
			p := x.findPkg(env, t.Name[:i])
			if p == nil {
				sfail("unknown package %s in type %s", t.Name[:i], t.Name)
			}
			obj := p.Scope().Lookup(t.Name[i+1:])
			if tn, ok := obj.(*types.TypeName); ok {
				return goT(tn.Type())
			}
			sfail("unknown type %s", t.Name)
		}
		if env.pkg != nil {
			if tn, ok := env.pkg.Scope().Lookup(t.Name).(*types.TypeName); ok {
				return goT(tn.Type())
			}
		}
		sfail("unknown type %s", t.Name)
	}
	sfail("bad type expression")
	return nil
}

func (x *Exec) findPkg(env *SpecEnv, name string) *types.Package {
	if p := x.typesPkg(name); p != nil {
		return p
	}
	if env.pkg != nil {
		for _, imp := range env.pkg.Imports() {
			if imp.Name() == name {
				return imp
			}
		}
	}
	// last resort: any package of that name reachable from the loaded packages (prefer the main module)
	var best *types.Package
	seen := map[*types.Package]bool{}
	var walk func(p *types.Package)
	walk = func(p *types.Package) {
		if p == nil || seen[p] {
			return
		}
		seen[p] = true
		if p.Name() == name {
			if best == nil || strings.HasPrefix(p.Path(), mainMod) {
				best = p
			}
		}
		for _, imp := range p.Imports() {
			walk(imp)
		}
	}
	for _, lp := range x.P.Pkgs {
		walk(lp.Types)
	}
	return best
}

// qvar creates a bound variable.
func (x *Exec) qvar(name string, t *SType) (SVal, []string, Term) {
	x.nfresh++
	ls := leavesOfS(t)
	var binders []string
	var ts []Term
	for _, l := range ls {
		n := fmt.Sprintf("q.%s%s!%d", sanitize(name), sanitize(l.Name), x.nfresh)
		binders = append(binders, fmt.Sprintf("(%s %s)", n, l.Sort))
		ts = append(ts, Term{n, l.Sort})
	}
	v := x.unflattenS(t, ts)
	// bound variables of integer type range over the mathematical integers: contracts state their own
	// bounds, and a machine-range guard would have to be proved for arbitrary array elements
	guard := True
	return SVal{v, t}, binders, guard
}

func (x *Exec) eval(env *SpecEnv, e Expr) SVal {
	switch e := e.(type) {
	case *EInt:
		return SVal{VScalar{IntLitStr(e.Val)}, untypedInt}
	case *EBool:
		if e.Val {
			return SVal{VScalar{True}, boolT}
		}
		return SVal{VScalar{False}, boolT}
	case *EStrLit:
		return SVal{x.strLit(e.Val), stringT}
	case *EIdent:
		return x.evalIdent(env, e.Name)
	case *EOld:
		if env.old == nil {
			sfail("old() is not available here")
		}
		n := *env
		n.st = env.old
		return x.eval(&n, e.X)
	case *ELet:
		v := x.eval(env, e.Val)
		return x.eval(env.with(e.Name, v), e.Body)
	case *EUnary:
		if e.Op == "&" {
			// address of a field of a heap object: &p.f
			sel, ok := e.X.(*ESel)
			if !ok {
				sfail("& needs a field selection")
			}
			base := x.eval(env, sel.X)
			pt, ok := base.T.G.Underlying().(*types.Pointer)
			if !ok {
				sfail("& on a field of a non-pointer")
			}
			st, ok := pt.Elem().Underlying().(*types.Struct)
			if !ok {
				sfail("& on a field of a non-struct")
			}
			path, ft := findField(st, sel.Sel)
			if path == nil {
				sfail("no field %s", sel.Sel)
			}
			pl := x.ptrPlace(base.V, pt.Elem())
			for _, i := range path {
				pl = x.subPlace(pl, i)
			}
			return SVal{VPtr{pl}, goT(types.NewPointer(ft))}
		}
		v := x.eval(env, e.X)
		switch e.Op {
		case "!":
			return SVal{VScalar{Not(v.V.(VScalar).T)}, boolT}
		case "-":
			t := v.V.(VScalar).T
			if t.Sort == SF64 {
				return SVal{VScalar{App("f64.neg", SF64, t)}, v.T}
			}
			if isLiteral(t) && !strings.HasPrefix(t.S, "(") {
				return SVal{VScalar{IntLitStr("-" + t.S)}, v.T}
			}
			return SVal{VScalar{App("-", SInt, t)}, v.T}
		}
	case *EBinary:
		return x.evalBinary(env, e)
	case *ECond:
		c := x.evalBool(env, e.C)
		a := x.eval(env, e.A)
		b := x.eval(env, e.B)
		return SVal{x.iteValue(c, a.V, b.V), pickType(a.T, b.T)}
	case *ECall:
		return x.evalCall(env, e)
	case *ESel:
		return x.evalSel(env, e)
	case *EIndex:
		return x.evalIndex(env, e)
	case *ESlice:
		return x.evalSlice(env, e)
	case *EAssertT:
		v := x.eval(env, e.X)
		i, ok := v.V.(VIface)
		if !ok {
			sfail("type assertion on non-interface")
		}
		T := x.resolveType(env, e.T)
		return SVal{x.unboxIfaceQuiet(env, i, T.G), T}
	case *EQuant:
		return x.evalQuant(env, e)
	case *ETypeVal:
		sfail("type used as value")
	}
	sfail("cannot evaluate %T", e)
	return SVal{}
}

func (x *Exec) unboxIfaceQuiet(env *SpecEnv, i VIface, t types.Type) Value {
	if pointerShaped(t) {
		v, _ := x.unflatten(t, []Term{i.Box})
		return v
	}
	ls := leavesOf(t)
	if len(ls) == 1 && ls[0].Sort == SInt {
		v, _ := x.unflatten(t, []Term{i.Box})
		return v
	}
	ts := make([]Term, len(ls))
	for k, l := range ls {
		ts[k] = App(x.unboxFn(t, l), l.Sort, i.Box)
	}
	v, _ := x.unflatten(t, ts)
	return v
}

func pickType(a, b *SType) *SType {
	if a == untypedInt || (a != nil && a.G != nil && isUntyped(a.G)) {
		return b
	}
	return a
}

func isUntyped(t types.Type) bool {
	b, ok := t.(*types.Basic)
	return ok && b.Info()&types.IsUntyped != 0
}

func (x *Exec) iteValue(c Term, a, b Value) Value {
	ta, ok1 := rawTerms(a)
	tb, ok2 := rawTerms(b)
	if !ok1 || !ok2 || len(ta) != len(tb) {
		ta, tb = x.flatten(a), x.flatten(b)
		if len(ta) != len(tb) {
			sfail("branches of ?: have different shapes")
		}
		out := make([]Term, len(ta))
		for i := range ta {
			out[i] = Ite(c, ta[i], tb[i])
		}
		if len(out) == 1 {
			if out[0].Sort == SStr {
				return VStr{out[0], IntLit(0), x.slen(out[0])}
			}
			return VScalar{out[0]}
		}
		sfail("cannot rebuild ?: value")
	}
	out := make([]Term, len(ta))
	for i := range ta {
		out[i] = Ite(c, ta[i], tb[i])
	}
	v, _ := rebuild(a, out)
	return v
}

func (x *Exec) evalIdent(env *SpecEnv, name string) SVal {
	if v, ok := env.vars[name]; ok {
		return v
	}
	switch name {
	case "nil":
		return SVal{VScalar{IntLit(0)}, goT(types.Typ[types.UntypedNil])}
	case "now":
		// (a local variable of the enclosing function called now takes precedence over the clock)
		if env.fr == nil || x.findLocal(env.fr, env.li, "now") == nil {
			return SVal{x.ghostGet(env.st, "now", VScalar{x.declare("now0", SInt)}), goT(types.Typ[types.Int64])}
		}
	case "wm":
		return SVal{VScalar{env.st.wm}, intT}
	case "MaxInt64":
		return SVal{VScalar{IntLitStr("9223372036854775807")}, untypedInt}
	case "MinInt64":
		return SVal{VScalar{IntLitStr("-9223372036854775808")}, untypedInt}
	}
	if name == "$range" && env.li != nil && env.fr != nil {
		// the slice a "for ... := range <expr>" loop iterates over (evaluated once, before the loop)
		for _, ins := range env.li.header.Instrs {
			b, ok := ins.(*ssa.BinOp)
			if !ok || b.Op != token.LSS {
				continue
			}
			if c, ok := b.Y.(*ssa.Call); ok {
				if bi, ok := c.Call.Value.(*ssa.Builtin); ok && bi.Name() == "len" && len(c.Call.Args) == 1 {
					if v, has := env.fr.vals[c.Call.Args[0]]; has {
						return SVal{v, goT(c.Call.Args[0].Type())}
					}
				}
			}
		}
		sfail("$range: not a range-over-slice loop")
	}
	if strings.HasPrefix(name, "$") {
		if v, ok := env.st.ghost[name]; ok {
			return SVal{v, x.ghostType(name)}
		}
		sfail("unknown ghost variable %s", name)
	}
	// locals of the enclosing function (loop invariants, asserts)
	if env.fr != nil {
		// inside old(...) a parameter stands for the argument the function was called with, also when the
		// parameter escapes (is captured by a closure) and therefore lives in a heap box that the entry state
		// has not initialised yet
		if env.st == env.fr.entrySt {
			for _, p := range env.fr.fn.Params {
				if p.Name() == name {
					if pv, has := env.fr.vals[p]; has {
						return SVal{pv, goT(p.Type())}
					}
				}
			}
		}
		if a := x.findLocal(env.fr, env.li, name); a != nil {
			elem := a.Type().(*types.Pointer).Elem()
			if a.Heap {
				var p *Place
				ref := env.fr.vals[a].(VScalar).T
				if _, ok := elem.Underlying().(*types.Struct); ok {
					p = &Place{Kind: PField, Ref: ref, Root: elem, Typ: elem}
				} else {
					p = &Place{Kind: PBox, Ref: ref, Root: elem, Typ: elem}
				}
				return SVal{x.loadQuiet(env, p), goT(elem)}
			}
			v, ok := env.st.cells[a]
			if !ok {
				// old(...) in a loop invariant: a parameter's value at function entry
				for _, p := range env.fr.fn.Params {
					if p.Name() == name {
						if pv, has := env.fr.vals[p]; has {
							return SVal{pv, goT(p.Type())}
						}
					}
				}
				sfail("local %s has no value here", name)
			}
			return SVal{v, goT(elem)}
		}
	}
	// a variable captured by the closure under verification: its current value (loop invariants of closure bodies)
	if env.fr != nil {
		for _, fv := range env.fr.fn.FreeVars {
			if fv.Name() != name {
				continue
			}
			if bv, has := env.fr.vals[fv]; has {
				elem := fv.Type().Underlying().(*types.Pointer).Elem()
				pl := x.ptrPlace(bv, elem)
				return SVal{x.loadQuiet(env, pl), goT(elem)}
			}
		}
	}
	// ghost variables of function / loop
	if v, ok := env.st.ghost["g."+name]; ok {
		return SVal{v, x.ghostType("g." + name)}
	}
	// package-level constants and variables
	if env.pkg != nil {
		if obj := env.pkg.Scope().Lookup(name); obj != nil {
			return x.evalObject(env, obj)
		}
	}
	sfail("unknown identifier %s", name)
	return SVal{}
}

func (x *Exec) ghostGet(st *State, key string, dflt Value) Value {
	if v, ok := st.ghost[key]; ok {
		return v
	}
	return dflt
}

var ghostTypes = map[string]*SType{}

func (x *Exec) ghostType(name string) *SType {
	if t, ok := ghostTypes[x.key+"/"+name]; ok {
		return t
	}
	if te, ok := x.C.GhostVars[name]; ok {
		env := &SpecEnv{x: x}
		if p, okp := x.P.Pkgs[x.C.GhostVarPkg[name]]; okp {
			env.pkg = p.Types
		}
		return x.resolveType(env, te)
	}
	return nil
}

func (x *Exec) evalObject(env *SpecEnv, obj types.Object) SVal {
	switch o := obj.(type) {
	case *types.Const:
		switch o.Val().Kind() {
		case constant.Int:
			return SVal{VScalar{IntLitStr(o.Val().ExactString())}, goT(o.Type())}
		case constant.Bool:
			if constant.BoolVal(o.Val()) {
				return SVal{VScalar{True}, boolT}
			}
			return SVal{VScalar{False}, boolT}
		case constant.String:
			return SVal{x.strLit(constant.StringVal(o.Val())), goT(o.Type())}
		}
	case *types.Var:
		// package-level variable
		for _, sp := range x.P.SSA {
			if sp.Pkg == o.Pkg() {
				if g, ok := sp.Members[o.Name()].(*ssa.Global); ok {
					elem := g.Type().(*types.Pointer).Elem()
					p := &Place{Kind: PGlobal, Global: g, Root: elem, Typ: elem}
					return SVal{x.loadQuiet(env, p), goT(elem)}
				}
			}
		}
		// global of a package outside scope: opaque constant
		name := "V|" + o.Pkg().Path() + "." + o.Name()
		ls := leavesOf(o.Type())
		ts := make([]Term, len(ls))
		for i, l := range ls {
			ts[i] = x.heapGet(env.st, name+"|"+l.Name, l.Sort)
		}
		v, _ := x.unflatten(o.Type(), ts)
		return SVal{v, goT(o.Type())}
	}
	sfail("cannot use %s here", obj.Name())
	return SVal{}
}

// loadQuiet loads without emitting typing assumptions inside quantifiers.
func (x *Exec) loadQuiet(env *SpecEnv, p *Place) Value {
	if env.noHeap {
		sfail("heap access in a heap-independent (recursive) spec function")
	}
	if env.quant > 0 {
		x.quiet++
		defer func() { x.quiet-- }()
	}
	return x.loadPlace(env.st, p)
}

// findLocal resolves a source-level local name to its Alloc.
func (x *Exec) findLocal(fr *Frame, li *loopInfo, name string) *ssa.Alloc {
	var best *ssa.Alloc
	var at *ssa.BasicBlock
	if li != nil {
		at = li.header
	}
	for _, b := range fr.fn.Blocks {
		for _, ins := range b.Instrs {
			a, ok := ins.(*ssa.Alloc)
			if !ok || a.Comment != name {
				continue
			}
			if _, bound := fr.vals[a]; !bound {
				continue
			}
			if at != nil && !(b == at || b.Dominates(at)) {
				continue
			}
			if best == nil {
				best = a
				continue
			}
			// prefer the innermost (dominated by the previous best)
			if best.Block().Dominates(b) {
				best = a
			}
		}
	}
	return best
}

func (x *Exec) evalBinary(env *SpecEnv, e *EBinary) SVal {
	switch e.Op {
	case "&&":
		a := x.evalBool(env, e.X)
		b := x.evalBool(env, e.Y)
		return SVal{VScalar{And(a, b)}, boolT}
	case "||":
		return SVal{VScalar{Or(x.evalBool(env, e.X), x.evalBool(env, e.Y))}, boolT}
	case "==>":
		return SVal{VScalar{Implies(x.evalBool(env, e.X), x.evalBool(env, e.Y))}, boolT}
	case "<==>":
		return SVal{VScalar{Eq(x.evalBool(env, e.X), x.evalBool(env, e.Y))}, boolT}
	}
	a := x.eval(env, e.X)
	// typeof(x) == T, comparisons with type values
	if tv, ok := e.Y.(*ETypeVal); ok {
		T := x.resolveType(env, tv.T)
		return x.cmpTag(e.Op, a, T)
	}
	b := x.eval(env, e.Y)
	switch e.Op {
	case "==", "!=":
		eq := x.valuesEqual(a, b)
		if e.Op == "!=" {
			eq = Not(eq)
		}
		return SVal{VScalar{eq}, boolT}
	case "in":
		switch s := b.V.(type) {
		case VSet:
			return SVal{VScalar{Select(s.T, x.flatten(a.V)[0])}, boolT}
		case VMMap:
			return SVal{VScalar{Select(s.Dom, x.flatten(a.V)[0])}, boolT}
		case VScalar:
			// Go map: key in dom
			if b.T != nil && b.T.G != nil {
				if _, ok := b.T.G.Underlying().(*types.Map); ok {
					dom, _, _, ks, _ := mapNames(b.T.G)
					d := x.heapGet(env.st, dom, ArrSort(SInt, ArrSort(ks, SBool)))
					return SVal{VScalar{And(Not(Eq(s.T, IntLit(0))), Select(Select(d, s.T), x.flatten(a.V)[0]))}, boolT}
				}
			}
		}
		sfail("'in' needs a set or map on the right")
	case "union", "inter", "minus":
		sa, ok1 := a.V.(VSet)
		sb, ok2 := b.V.(VSet)
		if !ok1 || !ok2 {
			sfail("%s needs sets", e.Op)
		}
		ks := idxSortOf(sa.T.Sort)
		q := Term{"sk", ks}
		var body Term
		switch e.Op {
		case "union":
			body = Or(Select(sa.T, q), Select(sb.T, q))
		case "inter":
			body = And(Select(sa.T, q), Select(sb.T, q))
		case "minus":
			body = And(Select(sa.T, q), Not(Select(sb.T, q)))
		}
		return SVal{VSet{Term{fmt.Sprintf("(lambda ((sk %s)) %s)", ks, body.S), sa.T.Sort}}, a.T}
	case "++":
		return x.seqConcat(env, a, b)
	}
	// strings
	if as, ok := a.V.(VStr); ok {
		bs, ok := b.V.(VStr)
		if !ok {
			sfail("string operator with non-string")
		}
		switch e.Op {
		case "+":
			t := App("sconcat", SStr, x.strTerm(as), x.strTerm(bs))
			return SVal{VStr{t, IntLit(0), x.slen(t)}, stringT}
		case "<":
			return SVal{VScalar{App("slt", SBool, x.strTerm(as), x.strTerm(bs))}, boolT}
		case "<=":
			return SVal{VScalar{Not(App("slt", SBool, x.strTerm(bs), x.strTerm(as)))}, boolT}
		case ">":
			return SVal{VScalar{App("slt", SBool, x.strTerm(bs), x.strTerm(as))}, boolT}
		case ">=":
			return SVal{VScalar{Not(App("slt", SBool, x.strTerm(as), x.strTerm(bs)))}, boolT}
		}
	}
	at, ok1 := a.V.(VScalar)
	bt, ok2 := b.V.(VScalar)
	if !ok1 || !ok2 {
		sfail("operator %s on non-scalar values (%T, %T)", e.Op, a.V, b.V)
	}
	rt := pickType(a.T, b.T)
	if at.T.Sort == SF64 || bt.T.Sort == SF64 {
		fa, fb := at.T, bt.T
		if fa.Sort == SInt {
			fa = App("f64.ofint", SF64, fa)
		}
		if fb.Sort == SInt {
			fb = App("f64.ofint", SF64, fb)
		}
		switch e.Op {
		case "<":
			return SVal{VScalar{App("f64.lt", SBool, fa, fb)}, boolT}
		case "<=":
			return SVal{VScalar{App("f64.le", SBool, fa, fb)}, boolT}
		case ">":
			return SVal{VScalar{App("f64.lt", SBool, fb, fa)}, boolT}
		case ">=":
			return SVal{VScalar{App("f64.le", SBool, fb, fa)}, boolT}
		case "+":
			return SVal{VScalar{App("f64.add", SF64, fa, fb)}, rt}
		case "-":
			return SVal{VScalar{App("f64.sub", SF64, fa, fb)}, rt}
		}
		sfail("float operator %s", e.Op)
	}
	switch e.Op {
	case "<":
		return SVal{VScalar{Lt(at.T, bt.T)}, boolT}
	case "<=":
		return SVal{VScalar{Le(at.T, bt.T)}, boolT}
	case ">":
		return SVal{VScalar{Gt(at.T, bt.T)}, boolT}
	case ">=":
		return SVal{VScalar{Ge(at.T, bt.T)}, boolT}
	case "+":
		return SVal{VScalar{Add(at.T, bt.T)}, rt}
	case "-":
		return SVal{VScalar{Sub(at.T, bt.T)}, rt}
	case "*":
		return SVal{VScalar{Mul(at.T, bt.T)}, rt}
	case "/":
		// mathematical contracts use Go's truncated division
		return SVal{VScalar{x.truncDiv(at.T, bt.T)}, rt}
	case "%":
		return SVal{VScalar{x.truncRem(at.T, bt.T)}, rt}
	}
	sfail("unsupported operator %s", e.Op)
	return SVal{}
}

func (x *Exec) cmpTag(op string, a SVal, T *SType) SVal {
	i, ok := a.V.(VIface)
	if !ok {
		sfail("typeof comparison needs typeof(e) on the left")
	}
	eq := Eq(i.Tag, x.typeTag(T.G))
	if op == "!=" {
		eq = Not(eq)
	} else if op != "==" {
		sfail("bad operator on types")
	}
	return SVal{VScalar{eq}, boolT}
}

func (x *Exec) valuesEqual(a, b SVal) Term {
	// nil comparisons
	if isNilT(b.T) {
		return x.isNil(a)
	}
	if isNilT(a.T) {
		return x.isNil(b)
	}
	if as, ok := a.V.(VStr); ok {
		if bs, ok := b.V.(VStr); ok {
			return Eq(x.strTerm(as), x.strTerm(bs))
		}
	}
	ta, tb := x.flatten(a.V), x.flatten(b.V)
	if len(ta) != len(tb) {
		sfail("== on values of different shapes (%s vs %s)", a.T, b.T)
	}
	var eqs []Term
	for i := range ta {
		if ta[i].Sort != tb[i].Sort {
			sfail("== on values of different sorts (%s vs %s)", ta[i].Sort, tb[i].Sort)
		}
		eqs = append(eqs, Eq(ta[i], tb[i]))
	}
	return And(eqs...)
}

func isNilT(t *SType) bool {
	if t == nil || t.G == nil {
		return false
	}
	b, ok := t.G.(*types.Basic)
	return ok && b.Kind() == types.UntypedNil
}

func (x *Exec) isNil(a SVal) Term {
	switch v := a.V.(type) {
	case VScalar:
		return Eq(v.T, IntLit(0))
	case VIface:
		return Eq(v.Tag, IntLit(0))
	case VSlice:
		return Eq(v.Arr, IntLit(0))
	case VPtr:
		return False
	}
	sfail("nil comparison on %T", a.V)
	return False
}

func (x *Exec) evalSel(env *SpecEnv, e *ESel) SVal {
	// package-qualified identifier
	if id, ok := e.X.(*EIdent); ok {
		if _, isVar := env.vars[id.Name]; !isVar {
			if env.fr == nil || x.findLocal(env.fr, env.li, id.Name) == nil {
				if p := x.findPkg(env, id.Name); p != nil {
					obj := p.Scope().Lookup(e.Sel)
					if obj == nil {
						sfail("unknown %s.%s", id.Name, e.Sel)
					}
					return x.evalObject(env, obj)
				}
			}
		}
	}
	base := x.eval(env, e.X)
	// tuple component
	if tv, ok := base.V.(VTuple); ok {
		var idx int
		if _, err := fmt.Sscanf(e.Sel, "%d", &idx); err != nil || idx < 0 || idx >= len(tv.Elems) {
			sfail("bad tuple selector .%s", e.Sel)
		}
		var et *SType
		if base.T != nil && base.T.G != nil {
			if tt, ok := base.T.G.(*types.Tuple); ok {
				et = goT(tt.At(idx).Type())
			}
		}
		return SVal{tv.Elems[idx], et}
	}
	if base.T == nil || base.T.G == nil {
		sfail("selector .%s on untyped value", e.Sel)
	}
	t := base.T.G
	// ghost field
	if strings.HasPrefix(e.Sel, "$") {
		return x.evalGhostField(env, base, e.Sel)
	}
	// struct value
	if sv, ok := base.V.(VStruct); ok {
		st := t.Underlying().(*types.Struct)
		for i := 0; i < st.NumFields(); i++ {
			if st.Field(i).Name() == e.Sel {
				return SVal{sv.Fields[i], goT(st.Field(i).Type())}
			}
		}
		sfail("no field %s in %s", e.Sel, t)
	}
	// pointer to struct
	if pt, ok := t.Underlying().(*types.Pointer); ok {
		st, ok := pt.Elem().Underlying().(*types.Struct)
		if !ok {
			sfail("selector on pointer to non-struct %s", t)
		}
		path, ft := findField(st, e.Sel)
		if path == nil {
			sfail("no field %s in %s", e.Sel, pt.Elem())
		}
		p := x.ptrPlace(base.V, pt.Elem())
		for _, i := range path {
			p = x.subPlace(p, i)
		}
		return SVal{x.loadQuiet(env, p), goT(ft)}
	}
	sfail("selector .%s on %s", e.Sel, t)
	return SVal{}
}

func findField(st *types.Struct, name string) ([]int, types.Type) {
	for i := 0; i < st.NumFields(); i++ {
		if st.Field(i).Name() == name {
			return []int{i}, st.Field(i).Type()
		}
	}
	// embedded (one level)
	for i := 0; i < st.NumFields(); i++ {
		if st.Field(i).Embedded() {
			if es, ok := st.Field(i).Type().Underlying().(*types.Struct); ok {
				if p, t := findField(es, name); p != nil {
					return append([]int{i}, p...), t
				}
			}
		}
	}
	return nil, nil
}

// ghost fields: G|pkg.Type.$name|leaf : Array Int leafSort
func (x *Exec) ghostFieldDecl(t types.Type, name string) *GhostField {
	if p, ok := t.Underlying().(*types.Pointer); ok {
		t = p.Elem()
	}
	if p, ok := t.(*types.Pointer); ok {
		t = p.Elem()
	}
	n, ok := t.(*types.Named)
	if !ok {
		sfail("ghost field %s on unnamed type %s", name, t)
	}
	pkg := x.P.Short[n.Obj().Pkg().Path()]
	gf := x.C.GhostFields[pkg+"."+n.Obj().Name()+"."+name]
	if gf == nil {
		sfail("undeclared ghost field %s.%s.%s", pkg, n.Obj().Name(), name)
	}
	return gf
}

func (x *Exec) ghostFieldArrays(env *SpecEnv, gf *GhostField) (names []string, leaves []Leaf, T *SType) {
	penv := *env
	if p := x.typesPkg(gf.Pkg); p != nil {
		penv.pkg = p
	}
	T = x.resolveType(&penv, gf.T)
	for _, l := range leavesOfS(T) {
		names = append(names, "G|"+gf.Pkg+"."+gf.Owner+"."+gf.Name+"|"+l.Name)
		leaves = append(leaves, l)
	}
	return
}

func (x *Exec) evalGhostField(env *SpecEnv, base SVal, name string) SVal {
	if env.noHeap {
		sfail("ghost field access in heap-independent spec function")
	}
	gf := x.ghostFieldDecl(base.T.G, name)
	names, leaves, T := x.ghostFieldArrays(env, gf)
	ref := x.flatten(base.V)[0]
	ts := make([]Term, len(names))
	for i, n := range names {
		a := x.heapGet(env.st, n, ArrSort(SInt, leaves[i].Sort))
		ts[i] = Select(a, ref)
	}
	return SVal{x.unflattenS(T, ts), T}
}

func (x *Exec) setGhostField(st *State, env *SpecEnv, owner SVal, name string, v Value) {
	gf := x.ghostFieldDecl(owner.T.G, name)
	names, leaves, _ := x.ghostFieldArrays(env, gf)
	ref := x.flatten(owner.V)[0]
	ts := x.flatten(v)
	for i, n := range names {
		a := x.heapGet(st, n, ArrSort(SInt, leaves[i].Sort))
		x.heapSet(st, n, x.define("h", Store(a, ref, ts[i])))
	}
}

func (x *Exec) evalIndex(env *SpecEnv, e *EIndex) SVal {
	base := x.eval(env, e.X)
	switch b := base.V.(type) {
	case VStr:
		i := x.evalInt(env, e.I)
		return SVal{VScalar{x.sat(b.Base, At(b.Off, i))}, goT(types.Typ[types.Uint8])}
	case VSlice:
		i := x.evalInt(env, e.I)
		et := base.T.G.Underlying().(*types.Slice).Elem()
		p := &Place{Kind: PElem, Ref: b.Arr, Idx: At(b.Off, i), Root: et, Typ: et}
		return SVal{x.loadQuiet(env, p), goT(et)}
	case VSet:
		k := x.eval(env, e.I)
		return SVal{VScalar{Select(b.T, x.flatten(k.V)[0])}, boolT}
	case VMMap:
		k := x.flatten(x.eval(env, e.I).V)[0]
		ts := make([]Term, len(b.Vals))
		for i, a := range b.Vals {
			ts[i] = Select(a, k)
		}
		return SVal{x.unflattenS(base.T.Elem, ts), base.T.Elem}
	case VSeq:
		i := x.evalInt(env, e.I)
		ts := make([]Term, len(b.Arrs))
		for k, a := range b.Arrs {
			ts[k] = Select(a, i)
		}
		return SVal{x.unflattenS(base.T.Elem, ts), base.T.Elem}
	case VArr:
		i := x.evalInt(env, e.I)
		ts := make([]Term, len(b.Leaves))
		for k, a := range b.Leaves {
			ts[k] = Select(a, i)
		}
		et := base.T.G.Underlying().(*types.Array).Elem()
		v, _ := x.unflatten(et, ts)
		return SVal{v, goT(et)}
	case VScalar:
		if base.T != nil && base.T.G != nil {
			if mt, ok := base.T.G.Underlying().(*types.Map); ok {
				if env.noHeap {
					sfail("map access in heap-independent spec function")
				}
				k := x.flatten(x.eval(env, e.I).V)[0]
				if env.quant > 0 {
					x.quiet++
					defer func() { x.quiet-- }()
				}
				v, _ := x.mapLookup(env.st, base.T.G, b.T, k)
				return SVal{v, goT(mt.Elem())}
			}
		}
	}
	sfail("cannot index %T", base.V)
	return SVal{}
}

func (x *Exec) evalSlice(env *SpecEnv, e *ESlice) SVal {
	base := x.eval(env, e.X)
	var lo, hi *Term
	if e.Lo != nil {
		t := x.evalInt(env, e.Lo)
		lo = &t
	}
	if e.Hi != nil {
		t := x.evalInt(env, e.Hi)
		hi = &t
	}
	switch b := base.V.(type) {
	case VStr:
		l := IntLit(0)
		if lo != nil {
			l = *lo
		}
		h := b.Len
		if hi != nil {
			h = *hi
		}
		return SVal{VStr{b.Base, addSimpl(b.Off, l), Sub(h, l)}, base.T}
	case VSlice:
		l := IntLit(0)
		if lo != nil {
			l = *lo
		}
		h := b.Len
		if hi != nil {
			h = *hi
		}
		return SVal{VSlice{b.Arr, addSimpl(b.Off, l), Sub(h, l), Sub(b.Cap, l)}, base.T}
	case VSeq:
		l := IntLit(0)
		if lo != nil {
			l = *lo
		}
		h := b.Len
		if hi != nil {
			h = *hi
		}
		arrs := make([]Term, len(b.Arrs))
		for i, a := range b.Arrs {
			es := elemSortOf(a.Sort)
			if l.S == "0" {
				arrs[i] = a
			} else if x.quantDepth == 0 {
				// a named array with a defining axiom instead of a lambda term (cvc5 rejects lambdas, z3 gets lost in them)
				n := x.fresh("seqslice", ArrSort(SInt, es))
				x.assume(Term{fmt.Sprintf("(forall ((sk Int)) (! (= (select %s sk) (select %s (+ sk %s))) :pattern ((select %s sk))))", n.S, a.S, l.S, n.S), SBool})
				arrs[i] = n
			} else {
				arrs[i] = Term{fmt.Sprintf("(lambda ((sk Int)) (select %s (+ sk %s)))", a.S, l.S), ArrSort(SInt, es)}
			}
		}
		return SVal{VSeq{arrs, Sub(h, l)}, base.T}
	}
	sfail("cannot slice %T", base.V)
	return SVal{}
}

func (x *Exec) seqConcat(env *SpecEnv, a, b SVal) SVal {
	sa, ok1 := a.V.(VSeq)
	sb, ok2 := b.V.(VSeq)
	if !ok1 || !ok2 {
		sfail("++ needs sequences")
	}
	arrs := make([]Term, len(sa.Arrs))
	for i := range sa.Arrs {
		es := elemSortOf(sa.Arrs[i].Sort)
		if x.quantDepth == 0 {
			n := x.fresh("seqcat", ArrSort(SInt, es))
			x.assume(Term{fmt.Sprintf("(forall ((sk Int)) (! (= (select %s sk) (ite (< sk %s) (select %s sk) (select %s (- sk %s)))) :pattern ((select %s sk))))", n.S, sa.Len.S, sa.Arrs[i].S, sb.Arrs[i].S, sa.Len.S, n.S), SBool})
			arrs[i] = n
			continue
		}
		arrs[i] = Term{fmt.Sprintf("(lambda ((sk Int)) (ite (< sk %s) (select %s sk) (select %s (- sk %s))))", sa.Len.S, sa.Arrs[i].S, sb.Arrs[i].S, sa.Len.S), ArrSort(SInt, es)}
	}
	return SVal{VSeq{arrs, Add(sa.Len, sb.Len)}, a.T}
}

func (x *Exec) evalQuant(env *SpecEnv, e *EQuant) SVal {
	n := *env
	n.vars = make(map[string]SVal, len(env.vars)+len(e.Vars))
	for k, v := range env.vars {
		n.vars[k] = v
	}
	n.quant++
	var binders []string
	guards := []Term{}
	for _, qv := range e.Vars {
		T := x.resolveType(env, qv.T)
		v, bs, g := x.qvar(qv.Name, T)
		n.vars[qv.Name] = v
		binders = append(binders, bs...)
		guards = append(guards, g)
	}
	x.quantDepth++
	// an integer variable j used as s[j] stands for (J - off(s)) where J is the bound absolute index into the
	// backing array: the access becomes select(A, J) and can serve as a trigger without arithmetic
	for _, qv := range e.Vars {
		sv := n.vars[qv.Name]
		if !isIntT(sv.T) {
			continue
		}
		if off, ok := x.pivotOffset(&n, e.Body, qv.Name); ok && off.S != "0" {
			J := sv.V.(VScalar).T
			n.vars[qv.Name] = SVal{VScalar{Term{"(- " + J.S + " " + off.S + ")", SInt}}, sv.T}
		}
	}
	body := x.evalBool(&n, e.Body)
	var pats []string
	for _, tr := range e.Trig {
		var ps []string
		for _, te := range tr {
			v := x.eval(&n, te)
			for _, t := range x.flatten(v.V) {
				ps = append(ps, t.S)
			}
		}
		pats = append(pats, ":pattern ("+strings.Join(ps, " ")+")")
	}
	x.quantDepth--
	g := And(guards...)
	var q string
	if e.Forall {
		body = Implies(g, body)
		q = "forall"
	} else {
		body = And(g, body)
		q = "exists"
	}
	txt := body.S
	if len(pats) == 0 {
		pats = autoPatterns(body.S, binders, !e.Forall)
	}
	if len(pats) > 0 {
		txt = "(! " + txt + " " + strings.Join(pats, " ") + ")"
	}
	return SVal{VScalar{Term{fmt.Sprintf("(%s (%s) %s)", q, strings.Join(binders, " "), txt), SBool}}, boolT}
}

// autoPatterns chooses E-matching triggers for a quantifier body: innermost applications of
// select / uninterpreted functions that mention bound variables.
func autoPatterns(body string, binders []string, isExists bool) []string {
	var vars []string
	for _, b := range binders {
		f := strings.Fields(strings.Trim(b, "()"))
		if len(f) > 0 {
			vars = append(vars, f[0])
		}
	}
	sx := parseSexprs(body)
	if len(sx) == 0 {
		return nil
	}
	type cand struct {
		text string
		vars map[string]bool
		size int
	}
	var cands []cand
	isVar := func(a string) bool {
		for _, v := range vars {
			if a == v {
				return true
			}
		}
		return false
	}
	okHead := func(h string, n *sexpr) bool {
		switch h {
		case "select", "sat", "slen", "ssub", "ofbytes", "tolower", "sconcat":
			return true
		case "at":
			// (at off v) with a bare bound variable: a trigger that does not depend on the store structure of arrays
			return n != nil && len(n.list) == 3 && !n.list[2].isL && isVar(n.list[2].atom)
		}
		return strings.HasPrefix(h, "spec.") || strings.HasPrefix(h, "unbox.") || strings.HasPrefix(h, "card.") || strings.HasPrefix(h, "addr.") || strings.HasPrefix(h, "f64.")
	}
	var walk func(n *sexpr) (map[string]bool, int, bool) // vars, size, containsCandidate-with-all-its-vars
	walk = func(n *sexpr) (map[string]bool, int, bool) {
		vs := map[string]bool{}
		if !n.isL {
			if isVar(n.atom) {
				vs[n.atom] = true
			}
			return vs, 1, false
		}
		size := 1
		childCand := false
		var childCandVars []map[string]bool
		for _, c := range n.list {
			cv, cs, cc := walk(c)
			for v := range cv {
				vs[v] = true
			}
			size += cs
			if cc {
				childCand = true
				childCandVars = append(childCandVars, cv)
			}
		}
		if len(n.list) == 0 || n.list[0].isL {
			return vs, size, childCand
		}
		h := n.list[0].atom
		if h == "forall" || h == "exists" || h == "lambda" || h == "!" || h == "let" {
			return vs, size, true // do not build patterns across nested binders
		}
		if okHead(h, n) && len(vs) > 0 {
			// skip if a child candidate already covers the same variables
			covered := false
			for _, cv := range childCandVars {
				if len(cv) == len(vs) {
					covered = true
				}
			}
			if h == "select" {
				// a select over an (at off v) index is still a useful trigger next to the bare (at off v)
				onlyAt := true
				for _, c := range n.list[1:] {
					if c.isL && len(c.list) > 0 && !c.list[0].isL && c.list[0].atom != "at" && containsVar(c, vars) {
						onlyAt = false
					}
				}
				if onlyAt {
					covered = false
				}
			}
			if !covered && !strings.Contains(n.String(), "(ite ") {
				cands = append(cands, cand{n.String(), vs, size})
			}
			return vs, size, true
		}
		return vs, size, childCand
	}
	walk(sx[0])
	// a term taken from inside a nested quantifier may mention that quantifier's variables: not usable here
	{
		var keep []cand
		for _, c := range cands {
			foreign := false
			for _, tokn := range boundVarRe.FindAllString(c.text, -1) {
				if !isVar(tokn) {
					foreign = true
				}
			}
			if !foreign {
				keep = append(keep, c)
			}
		}
		cands = keep
	}
	// a bare (at off v) trigger is only safe when no (at off <compound index mentioning a bound variable>) occurs:
	// otherwise every instance creates a new at-term that matches again (matching loop)
	compoundAt := false
	var scan func(n *sexpr)
	scan = func(n *sexpr) {
		if !n.isL {
			return
		}
		if len(n.list) == 3 && !n.list[0].isL && n.list[0].atom == "at" && n.list[2].isL && containsVar(n.list[2], vars) {
			compoundAt = true
		}
		for _, c := range n.list {
			scan(c)
		}
	}
	scan(sx[0])
	hasNonAt := false
	for _, c := range cands {
		if !strings.HasPrefix(c.text, "(at ") {
			hasNonAt = true
		}
	}
	// universal quantifiers (used as hypotheses) get select/function triggers only; existential ones
	// (whose triggers matter only when they are goals, i.e. negated) may also use the liberal (at off v) trigger
	if compoundAt || (hasNonAt && !isExists) {
		var keep []cand
		for _, c := range cands {
			if !strings.HasPrefix(c.text, "(at ") {
				keep = append(keep, c)
			}
		}
		cands = keep
	}
	if len(cands) == 0 {
		return nil
	}
	// de-duplicate
	seen := map[string]bool{}
	var uniq []cand
	for _, c := range cands {
		if !seen[c.text] {
			seen[c.text] = true
			uniq = append(uniq, c)
		}
	}
	cands = uniq
	sort.Slice(cands, func(i, j int) bool { return cands[i].size < cands[j].size })
	var pats []string
	for _, c := range cands {
		if len(c.vars) == len(vars) && len(pats) < 4 {
			pats = append(pats, ":pattern ("+c.text+")")
		}
	}
	if len(pats) > 0 {
		return pats
	}
	// greedy multi-pattern
	need := map[string]bool{}
	for _, v := range vars {
		need[v] = true
	}
	var multi []string
	for _, c := range cands {
		adds := false
		for v := range c.vars {
			if need[v] {
				adds = true
			}
		}
		if adds {
			multi = append(multi, c.text)
			for v := range c.vars {
				delete(need, v)
			}
		}
	}
	if len(need) == 0 && len(multi) > 0 {
		return []string{":pattern (" + strings.Join(multi, " ") + ")"}
	}
	return nil
}

var boundVarRe = regexp.MustCompile(`q\.[A-Za-z0-9_$]+![0-9]+`)

func containsVar(n *sexpr, vars []string) bool {
	if !n.isL {
		for _, v := range vars {
			if n.atom == v {
				return true
			}
		}
		return false
	}
	for _, c := range n.list {
		if containsVar(c, vars) {
			return true
		}
	}
	return false
}

// pivotOffset finds the first use s[j] of the bound variable j as a bare index of a slice or string and
// returns the offset of s (which must not depend on bound variables).
func (x *Exec) pivotOffset(env *SpecEnv, body Expr, name string) (off Term, ok bool) {
	var found Expr
	walkExpr(body, func(n Expr) {
		if found != nil {
			return
		}
		if ix, isIx := n.(*EIndex); isIx {
			if id, isId := ix.I.(*EIdent); isId && id.Name == name {
				found = ix.X
			}
		}
	})
	if found == nil {
		return Term{}, false
	}
	defer func() {
		if r := recover(); r != nil {
			ok = false
		}
	}()
	v := x.eval(env, found)
	var o Term
	switch b := v.V.(type) {
	case VSlice:
		o = b.Off
	case VStr:
		o = b.Off
	default:
		return Term{}, false
	}
	// the offset may mention other bound variables (s itself may be indexed by an outer variable, as in
	// chunks[a][j]): for each of their values J -> J - off is still a bijection. It must not mention j itself.
	if self, isS := env.vars[name].V.(VScalar); isS && strings.Contains(o.S, self.T.S) {
		return Term{}, false
	}
	return o, true
}
