package main

// SMT-LIB term construction and the solver portfolio.

import (
	"bytes"
	"context"
	"fmt"
	"os"
	"os/exec"
	"path/filepath"
	"strings"
	"sync"
	"time"
)

// Sort names are SMT-LIB sort texts.
type Sort string

const (
	SInt  Sort = "Int"
	SBool Sort = "Bool"
	SStr  Sort = "Str"
	SF64  Sort = "F64"
)

func ArrSort(idx, elem Sort) Sort { return Sort("(Array " + string(idx) + " " + string(elem) + ")") }

// elemSortOf returns the element sort of an array sort "(Array I E)".
func elemSortOf(s Sort) Sort {
	t := string(s)
	if !strings.HasPrefix(t, "(Array ") {
		panic("not an array sort: " + t)
	}
	t = t[len("(Array ") : len(t)-1]
	// split the index sort (may be parenthesised) from the element sort
	depth := 0
	for i := 0; i < len(t); i++ {
		switch t[i] {
		case '(':
			depth++
		case ')':
			depth--
		case ' ':
			if depth == 0 {
				return Sort(t[i+1:])
			}
		}
	}
	panic("bad array sort " + string(s))
}

func idxSortOf(s Sort) Sort {
	t := string(s)
	t = t[len("(Array ") : len(t)-1]
	depth := 0
	for i := 0; i < len(t); i++ {
		switch t[i] {
		case '(':
			depth++
		case ')':
			depth--
		case ' ':
			if depth == 0 {
				return Sort(t[:i])
			}
		}
	}
	panic("bad array sort " + string(s))
}

type Term struct {
	S    string
	Sort Sort
}

func (t Term) String() string { return t.S }

var (
	True  = Term{"true", SBool}
	False = Term{"false", SBool}
)

func IntLit(n int64) Term {
	if n < 0 {
		// avoid overflow on MinInt64
		return Term{fmt.Sprintf("(- %s)", strings.TrimPrefix(fmt.Sprintf("%d", n), "-")), SInt}
	}
	return Term{fmt.Sprintf("%d", n), SInt}
}

func IntLitStr(dec string) Term {
	if strings.HasPrefix(dec, "-") {
		return Term{"(- " + dec[1:] + ")", SInt}
	}
	return Term{dec, SInt}
}

func App(op string, sort Sort, args ...Term) Term {
	var b strings.Builder
	b.WriteByte('(')
	b.WriteString(op)
	for _, a := range args {
		b.WriteByte(' ')
		b.WriteString(a.S)
	}
	b.WriteByte(')')
	return Term{b.String(), sort}
}

func And(ts ...Term) Term {
	var keep []Term
	for _, t := range ts {
		if t.S == "true" {
			continue
		}
		if t.S == "false" {
			return False
		}
		keep = append(keep, t)
	}
	switch len(keep) {
	case 0:
		return True
	case 1:
		return keep[0]
	}
	return App("and", SBool, keep...)
}

func Or(ts ...Term) Term {
	var keep []Term
	for _, t := range ts {
		if t.S == "false" {
			continue
		}
		if t.S == "true" {
			return True
		}
		keep = append(keep, t)
	}
	switch len(keep) {
	case 0:
		return False
	case 1:
		return keep[0]
	}
	return App("or", SBool, keep...)
}

func Not(t Term) Term {
	switch t.S {
	case "true":
		return False
	case "false":
		return True
	}
	if strings.HasPrefix(t.S, "(not ") {
		return Term{t.S[5 : len(t.S)-1], SBool}
	}
	return App("not", SBool, t)
}

func Implies(a, b Term) Term {
	if a.S == "true" {
		return b
	}
	if a.S == "false" || b.S == "true" {
		return True
	}
	return App("=>", SBool, a, b)
}

func Eq(a, b Term) Term {
	if a.S == b.S {
		return True
	}
	if a.Sort != b.Sort {
		panic(fmt.Sprintf("Eq sort mismatch: %s:%s vs %s:%s", a.S, a.Sort, b.S, b.Sort))
	}
	return App("=", SBool, a, b)
}

func Ite(c, a, b Term) Term {
	if c.S == "true" {
		return a
	}
	if c.S == "false" {
		return b
	}
	if a.S == b.S {
		return a
	}
	return App("ite", a.Sort, c, a, b)
}

func Add(a, b Term) Term { return App("+", SInt, a, b) }

// At is the address of element i of a window starting at off: an uninterpreted wrapper around
// off+i so that quantifier triggers never contain arithmetic.
func At(off, i Term) Term {
	// element address = off + i as plain arithmetic. A quantified index variable j that is used as s[j] is
	// re-expressed by the verifier as (J - off) for a bound absolute index J (see evalQuant), so that the
	// access simplifies to select(A, J): triggers then never contain arithmetic.
	if off.S == "0" {
		return i
	}
	if strings.HasPrefix(i.S, "(- ") && strings.HasSuffix(i.S, " "+off.S+")") {
		inner := i.S[3 : len(i.S)-len(off.S)-2]
		if balanced(inner) {
			return Term{inner, SInt}
		}
	}
	if i.S == "0" {
		return off
	}
	return App("+", SInt, off, i)
}

func balanced(s string) bool {
	d := 0
	for _, c := range s {
		switch c {
		case '(':
			d++
		case ')':
			d--
			if d < 0 {
				return false
			}
		case ' ':
			if d == 0 {
				return false
			}
		}
	}
	return d == 0
}

func Sub(a, b Term) Term { return App("-", SInt, a, b) }
func Mul(a, b Term) Term { return App("*", SInt, a, b) }
func Lt(a, b Term) Term  { return App("<", SBool, a, b) }
func Le(a, b Term) Term  { return App("<=", SBool, a, b) }
func Gt(a, b Term) Term  { return App(">", SBool, a, b) }
func Ge(a, b Term) Term  { return App(">=", SBool, a, b) }

func Select(a, i Term) Term { return App("select", elemSortOf(a.Sort), a, i) }
func Store(a, i, v Term) Term {
	return App("store", a.Sort, a, i, v)
}

// sanitize makes an SMT-LIB simple symbol out of arbitrary text.
func sanitize(s string) string {
	var b strings.Builder
	for _, r := range s {
		switch {
		case r >= 'a' && r <= 'z', r >= 'A' && r <= 'Z', r >= '0' && r <= '9', r == '_', r == '.', r == '$', r == '!', r == '@', r == '#':
			b.WriteRune(r)
		case r == '*':
			b.WriteString("ptr.")
		case r == '[':
			b.WriteString("_L")
		case r == ']':
			b.WriteString("R_")
		case r == '/':
			b.WriteString(".")
		default:
			b.WriteByte('_')
		}
	}
	return b.String()
}

// ---------------------------------------------------------------------------
// Solver portfolio

type SolverResult struct {
	Status  string // "unsat", "sat", "unknown", "timeout", "error"
	Solver  string
	Seconds float64
	Output  string
	All     map[string]string // per-solver status
}

type solverSpec struct {
	name string
	argv func(file string, timeoutS int, seed int) []string
}

var solvers = []solverSpec{
	{"z3-4.8.12", func(f string, t, seed int) []string {
		return []string{"/usr/bin/z3", "-smt2", fmt.Sprintf("-T:%d", t), fmt.Sprintf("smt.random_seed=%d", seed), "smt.mbqi=false", "smt.auto_config=false", f}
	}},
	{"z3-5.1.0", func(f string, t, seed int) []string {
		return []string{"z3-new", "-smt2", fmt.Sprintf("-T:%d", t), fmt.Sprintf("smt.random_seed=%d", seed), "smt.mbqi=false", "smt.auto_config=false", f}
	}},
	{"z3-5.1.0/arith2", func(f string, t, seed int) []string {
		return []string{"z3-new", "-smt2", fmt.Sprintf("-T:%d", t), fmt.Sprintf("smt.random_seed=%d", seed), "smt.mbqi=false", "smt.auto_config=false", "smt.arith.solver=2", f}
	}},
	// default (MBQI) configuration: the older release only. z3 5.1.0 with its default configuration once answered
	// unsat for a satisfiable batch (Set.Random, see DESIGN.md section 13), so it is not used for proofs.
	{"z3-4.8.12/mbqi", func(f string, t, seed int) []string {
		return []string{"/usr/bin/z3", "-smt2", fmt.Sprintf("-T:%d", t), fmt.Sprintf("smt.random_seed=%d", seed), f}
	}},
	{"cvc5-1.0.3", func(f string, t, seed int) []string {
		return []string{"cvc5", fmt.Sprintf("--tlimit=%d", t*1000), fmt.Sprintf("--seed=%d", seed), "--lang=smt2", f}
	}},
}

var solverStats = struct {
	sync.Mutex
	wins    map[string]int
	seconds map[string]float64
	queries int
}{wins: map[string]int{}, seconds: map[string]float64{}}

// runPortfolio races the solvers on the SMT text. First definitive answer wins.
// needAll: run all solvers to completion and record each status (thorough tier).
func runPortfolio(smt string, timeoutS int, seed int, which []string, needAll bool) SolverResult {
	dir := scratchDir()
	f, err := os.CreateTemp(dir, "q*.smt2")
	if err != nil {
		return SolverResult{Status: "error", Output: err.Error()}
	}
	f.WriteString(smt)
	f.Close()
	defer os.Remove(f.Name())

	type one struct {
		name, status, out string
		secs              float64
	}
	ctx, cancel := context.WithCancel(context.Background())
	defer cancel()
	ch := make(chan one, len(solvers))
	n := 0
	for _, s := range solvers {
		if skip := os.Getenv("GOVC_SKIP_SOLVER"); skip != "" && strings.Contains(s.name, skip) {
			continue
		}
		if len(which) > 0 {
			ok := false
			for _, w := range which {
				if strings.HasPrefix(s.name, w) {
					ok = true
				}
			}
			if !ok {
				continue
			}
		}
		n++
		go func(s solverSpec) {
			argv := s.argv(f.Name(), timeoutS, seed)
			t0 := time.Now()
			c, cancel2 := context.WithTimeout(ctx, time.Duration(timeoutS+2)*time.Second)
			defer cancel2()
			cmd := exec.CommandContext(c, argv[0], argv[1:]...)
			var out bytes.Buffer
			cmd.Stdout = &out
			cmd.Stderr = &out
			cmd.Run()
			secs := time.Since(t0).Seconds()
			first := statusLine(out.String())
			st := "unknown"
			switch {
			case first == "unsat":
				st = "unsat"
			case first == "sat":
				st = "sat"
			case first == "timeout" || c.Err() != nil:
				st = "timeout"
			case strings.HasPrefix(first, "(error") || strings.Contains(first, "rror"):
				st = "error"
			}
			ch <- one{s.name, st, out.String(), secs}
		}(s)
	}
	res := SolverResult{Status: "unknown", All: map[string]string{}}
	var errOut string
	// thorough tier (needAll): the other solvers get a grace period after the first definite answer, so that their
	// verdicts are recorded (a disagreement between solvers would show), but a solver that would only time out
	// does not hold every obligation up for the full limit
	var grace <-chan time.Time
	for i := 0; i < n; i++ {
		var o one
		select {
		case o = <-ch:
		case <-grace:
			cancel()
			i = n
			continue
		}
		res.All[o.name] = o.status
		if o.status == "error" {
			errOut += o.name + ": " + o.out + "\n"
		}
		if (o.status == "unsat" || o.status == "sat") && (res.Status != "unsat" && res.Status != "sat") {
			res.Status, res.Solver, res.Seconds, res.Output = o.status, o.name, o.secs, o.out
			if !needAll {
				cancel()
				break
			}
			if grace == nil {
				grace = time.After(4 * time.Second)
			}
		}
	}
	if res.Status != "unsat" && res.Status != "sat" {
		res.Output = errOut
		allTimeout := true
		for _, st := range res.All {
			if st != "timeout" {
				allTimeout = false
			}
		}
		if allTimeout && n > 0 {
			res.Status = "timeout"
		}
		if errOut != "" && len(res.All) == n {
			allErr := true
			for _, st := range res.All {
				if st != "error" {
					allErr = false
				}
			}
			if allErr {
				res.Status = "error"
			}
		}
	}
	solverStats.Lock()
	solverStats.queries++
	if res.Solver != "" {
		solverStats.wins[res.Solver]++
		solverStats.seconds[res.Solver] += res.Seconds
	}
	solverStats.Unlock()
	return res
}

var scratchOnce sync.Once
var scratchPath string

func scratchDir() string {
	scratchOnce.Do(func() {
		base := os.Getenv("GOVC_SCRATCH")
		if base == "" {
			base = filepath.Join(verifRoot(), "out", "scratch")
		}
		os.MkdirAll(base, 0o755)
		scratchPath = base
	})
	return scratchPath
}

func verifRoot() string {
	if r := os.Getenv("VERIF_ROOT"); r != "" {
		return r
	}
	return "/verif"
}

// getValues runs an interactive-style query: the base text (which must be sat)
// followed by get-value for the given terms; returns term->value text.
func getValues(smt string, terms []string, timeoutS int, solverName string) map[string]string {
	if len(terms) == 0 {
		return nil
	}
	q := smt + "\n(get-value (" + strings.Join(terms, " ") + "))\n"
	dir := scratchDir()
	f, err := os.CreateTemp(dir, "m*.smt2")
	if err != nil {
		return nil
	}
	f.WriteString(q)
	f.Close()
	defer os.Remove(f.Name())
	var spec *solverSpec
	for i := range solvers {
		if solvers[i].name == solverName {
			spec = &solvers[i]
		}
	}
	if spec == nil {
		spec = &solvers[1]
	}
	argv := spec.argv(f.Name(), timeoutS, 0)
	ctx, cancel := context.WithTimeout(context.Background(), time.Duration(timeoutS+2)*time.Second)
	defer cancel()
	out, _ := exec.CommandContext(ctx, argv[0], argv[1:]...).CombinedOutput()
	txt := string(out)
	i := strings.Index(txt, "\n")
	if i < 0 || strings.TrimSpace(txt[:i]) != "sat" {
		return nil
	}
	return parseGetValue(txt[i+1:], terms)
}

// parseGetValue parses "((t1 v1) (t2 v2) ...)" assuming the terms come back in order.
func parseGetValue(txt string, terms []string) map[string]string {
	res := map[string]string{}
	sx := parseSexprs(txt)
	if len(sx) == 0 {
		return res
	}
	pairs := sx[0].list
	for i, p := range pairs {
		if i >= len(terms) || len(p.list) != 2 {
			continue
		}
		res[terms[i]] = p.list[1].String()
	}
	return res
}

type sexpr struct {
	atom string
	list []*sexpr
	isL  bool
}

func (s *sexpr) String() string {
	if !s.isL {
		return s.atom
	}
	parts := make([]string, len(s.list))
	for i, c := range s.list {
		parts[i] = c.String()
	}
	return "(" + strings.Join(parts, " ") + ")"
}

func parseSexprs(txt string) []*sexpr {
	var stack []*sexpr
	var top []*sexpr
	i := 0
	emit := func(x *sexpr) {
		if len(stack) == 0 {
			top = append(top, x)
		} else {
			p := stack[len(stack)-1]
			p.list = append(p.list, x)
		}
	}
	for i < len(txt) {
		c := txt[i]
		switch {
		case c == '(':
			stack = append(stack, &sexpr{isL: true})
			i++
		case c == ')':
			if len(stack) == 0 {
				i++
				continue
			}
			x := stack[len(stack)-1]
			stack = stack[:len(stack)-1]
			emit(x)
			i++
		case c == ' ' || c == '\n' || c == '\t' || c == '\r':
			i++
		case c == '|':
			j := strings.IndexByte(txt[i+1:], '|')
			if j < 0 {
				j = len(txt) - i - 1
			}
			emit(&sexpr{atom: txt[i : i+j+2]})
			i += j + 2
		case c == '"':
			j := i + 1
			for j < len(txt) && txt[j] != '"' {
				j++
			}
			emit(&sexpr{atom: txt[i : j+1]})
			i = j + 1
		default:
			j := i
			for j < len(txt) && !strings.ContainsRune("() \n\t\r", rune(txt[j])) {
				j++
			}
			emit(&sexpr{atom: txt[i:j]})
			i = j
		}
	}
	return top
}

// smtIntValue turns "5" or "(- 5)" into an int64 (ok=false if not an integer literal).
func smtIntValue(v string) (int64, bool) {
	v = strings.TrimSpace(v)
	neg := false
	if strings.HasPrefix(v, "(-") {
		neg = true
		v = strings.TrimSpace(strings.TrimSuffix(strings.TrimPrefix(v, "(-"), ")"))
	}
	var n int64
	if v == "" {
		return 0, false
	}
	for _, c := range v {
		if c < '0' || c > '9' {
			return 0, false
		}
		d := int64(c - '0')
		if n > (1<<63-1-d)/10 {
			if neg && n == 922337203685477580 && d == 8 {
				return -1 << 63, true
			}
			return 0, false
		}
		n = n*10 + d
	}
	if neg {
		n = -n
	}
	return n, true
}

// statusLine finds the solver's answer, skipping warning lines.
func statusLine(out string) string {
	for _, ln := range strings.Split(out, "\n") {
		ln = strings.TrimSpace(ln)
		switch ln {
		case "sat", "unsat", "unknown", "timeout":
			return ln
		}
		if strings.HasPrefix(ln, "(error") {
			return ln
		}
	}
	return strings.TrimSpace(strings.SplitN(out, "\n", 2)[0])
}
