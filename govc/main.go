package main

import (
	"encoding/json"
	"flag"
	"fmt"
	"os"
	"os/exec"
	"path/filepath"
	"sort"
	"strings"
)

func usage() {
	fmt.Fprintln(os.Stderr, `usage:
  govc func [-t secs] [-keep] [-nopanic] <pkg.Func>...   verify single functions (debugging)
  govc sweep [-t secs] <pkg>...                          verify every function of the packages
  govc ssa <pkg.Func>                                    dump SSA
  govc check <id> <quick|thorough>                       run a property check
  govc replay <path>                                     replay a recorded violation`)
	os.Exit(2)
}

func main() {
	if len(os.Args) < 2 {
		usage()
	}
	switch os.Args[1] {
	case "func":
		cmdFunc(os.Args[2:])
	case "sweep":
		cmdSweep(os.Args[2:])
	case "ssa":
		cmdSSA(os.Args[2:])
	case "loops":
		cmdLoops(os.Args[2:])
	case "check":
		cmdCheck(os.Args[2:])
	case "replay":
		cmdReplay(os.Args[2:])
	case "selftest":
		cmdSelftest(os.Args[2:])
	default:
		usage()
	}
}

func pkgsOfKeys(keys []string) []string {
	set := map[string]bool{}
	for _, k := range keys {
		if strings.HasPrefix(k, "lemma:") {
			continue
		}
		set[strings.Split(k, ".")[0]] = true
	}
	var out []string
	for k := range set {
		out = append(out, k)
	}
	sort.Strings(out)
	return out
}

func cmdSSA(args []string) {
	P, err := loadProgram(pkgsOfKeys(args))
	if err != nil {
		fmt.Fprintln(os.Stderr, err)
		os.Exit(2)
	}
	for _, k := range args {
		fn := P.lookupFunc(k)
		if fn == nil {
			fmt.Fprintln(os.Stderr, "not found:", k)
			continue
		}
		fn.WriteTo(os.Stdout)
		for _, a := range fn.AnonFuncs {
			a.WriteTo(os.Stdout)
		}
	}
}

func printResult(res *FuncResult, verbose bool) (fails int) {
	if res.OutOfSubset != "" {
		fmt.Printf("%-50s OUT-OF-SUBSET: %s\n", res.Key, res.OutOfSubset)
		return 0
	}
	if res.Error != "" {
		fmt.Printf("%-50s ERROR: %s\n", res.Key, res.Error)
		return 1
	}
	ok := 0
	for _, o := range res.Obls {
		if obligationOK(o) {
			ok++
		} else {
			fails++
		}
	}
	fmt.Printf("%-50s %d/%d obligations ok  (%.1fs)\n", res.Key, ok, len(res.Obls), res.Seconds)
	for _, o := range res.Obls {
		if !obligationOK(o) || verbose {
			st := "?"
			sv := ""
			if o.Result != nil {
				st = o.Result.Status
				sv = o.Result.Solver
			}
			secs := 0.0
			if o.Result != nil {
				secs = o.Result.Seconds
			}
			fmt.Printf("    %-8s %-10s %5.1fs %s  @%s:%d\n", st, sv, secs, o.Name, shortFile(o.Pos.Filename), o.Pos.Line)
			if o.Note != "" {
				fmt.Printf("             %s\n", o.Note)
			}
		}
	}
	if verbose {
		for _, n := range res.Notes {
			fmt.Println("    note:", n)
		}
		for _, n := range res.Trusted {
			fmt.Println("    trusted:", n)
		}
	}
	return fails
}

func shortFile(f string) string {
	return strings.TrimPrefix(f, repoRoot()+"/")
}

func cmdFunc(args []string) {
	fs := flag.NewFlagSet("func", flag.ExitOnError)
	t := fs.Int("t", 10, "timeout per query (s)")
	keep := fs.Bool("keep", false, "keep SMT files of failed obligations")
	nopanic := fs.Bool("nopanic", false, "no run-time panic obligations")
	verbose := fs.Bool("v", false, "verbose")
	dump := fs.Bool("dump", false, "dump the SMT of the whole function")
	fs.Parse(args)
	keys := fs.Args()
	P, err := loadProgram(pkgsOfKeys(keys))
	if err != nil {
		fmt.Fprintln(os.Stderr, err)
		os.Exit(2)
	}
	C, err := loadContracts(repoRoot(), pkgsOfKeys(keys))
	if err != nil {
		fmt.Fprintln(os.Stderr, err)
		os.Exit(2)
	}
	applyTemplates(P, C)
	sem := make(chan struct{}, 20)
	fails := 0
	for _, k := range keys {
		if strings.HasPrefix(k, "lemma:") {
			for _, lm := range C.Lemmas {
				if lm.Name == strings.TrimPrefix(k, "lemma:") {
					res := buildLemmaVC(P, C, lm)
					if res.Error == "" {
						discharge(res, VerifyOpts{TimeoutS: *t, Keep: *keep}, sem)
					}
					fails += printResult(res, *verbose)
				}
			}
			continue
		}
		fn := P.lookupFunc(k)
		if fn == nil {
			fmt.Fprintln(os.Stderr, "not found:", k)
			fails++
			continue
		}
		res := buildVC(P, C, fn, *nopanic)
		if *dump && res.exec != nil {
			fmt.Println(res.exec.smtFor(res.Obls, 0))
		}
		if res.OutOfSubset == "" && res.Error == "" {
			discharge(res, VerifyOpts{TimeoutS: *t, Keep: *keep}, sem)
		}
		fails += printResult(res, *verbose)
	}
	if fails > 0 {
		os.Exit(1)
	}
}

func cmdSweep(args []string) {
	fs := flag.NewFlagSet("sweep", flag.ExitOnError)
	t := fs.Int("t", 10, "timeout per query (s)")
	keep := fs.Bool("keep", false, "keep SMT files of failed obligations")
	fs.Parse(args)
	pk := fs.Args()
	P, err := loadProgram(pk)
	if err != nil {
		fmt.Fprintln(os.Stderr, err)
		os.Exit(2)
	}
	C, err := loadContracts(repoRoot(), pk)
	if err != nil {
		fmt.Fprintln(os.Stderr, err)
		os.Exit(2)
	}
	applyTemplates(P, C)
	sem := make(chan struct{}, 20)
	type job struct{ res *FuncResult }
	var results []*FuncResult
	done := make(chan *FuncResult)
	n := 0
	for _, p := range pk {
		for _, fn := range P.allSourceFuncs(p) {
			n++
			res := buildVC(P, C, fn, false)
			go func(res *FuncResult) {
				if res.OutOfSubset == "" && res.Error == "" {
					discharge(res, VerifyOpts{TimeoutS: *t, Keep: *keep}, sem)
				}
				done <- res
			}(res)
		}
	}
	for i := 0; i < n; i++ {
		results = append(results, <-done)
	}
	sort.Slice(results, func(i, j int) bool { return results[i].Key < results[j].Key })
	tot, fails, oos := 0, 0, 0
	for _, r := range results {
		fails += printResult(r, false)
		tot += len(r.Obls)
		if r.OutOfSubset != "" {
			oos++
		}
	}
	fmt.Printf("functions %d  out-of-subset %d  obligations %d  failing %d\n", n, oos, tot, fails)
}


func cmdLoops(args []string) {
	P, err := loadProgram(pkgsOfKeys(args))
	if err != nil {
		fmt.Fprintln(os.Stderr, err)
		os.Exit(2)
	}
	C := &Contracts{Funcs: map[string]*FuncContract{}, Specs: map[string]*SpecFunc{}, GhostFields: map[string]*GhostField{}, GhostVars: map[string]*TypeExpr{}}
	for _, k := range args {
		fn := P.lookupFunc(k)
		if fn == nil {
			fmt.Fprintln(os.Stderr, "not found:", k)
			continue
		}
		x := newExec(P, C, fn)
		fr := &Frame{fn: fn}
		x.analyzeLoops(fr)
		var lis []*loopInfo
		for _, li := range fr.loops {
			lis = append(lis, li)
		}
		sort.Slice(lis, func(i, j int) bool { return lis[i].ordinal < lis[j].ordinal })
		for _, li := range lis {
			fmt.Printf("%s  #%d  %q  (line %d)\n", k, li.ordinal, li.key, P.Fset.Position(li.pos).Line)
		}
	}
}

type mutant struct {
	Name     string `json:"name"`
	Property string `json:"property"`
	File     string `json:"file"`
	Old      string `json:"old"`
	New      string `json:"new"`
	Expect   string `json:"expect"`
}

// cmdSelftest: every must-fail mutant must make the check of its property report a violation whose
// obligation name contains the expected text. Mutants are applied through an overlay (no copy of /repo).
func cmdSelftest(args []string) {
	data, err := os.ReadFile(filepath.Join(verifRoot(), "selftest", "mutants.json"))
	if err != nil {
		fmt.Fprintln(os.Stderr, err)
		os.Exit(2)
	}
	var ms []mutant
	if err := json.Unmarshal(data, &ms); err != nil {
		fmt.Fprintln(os.Stderr, err)
		os.Exit(2)
	}
	only := ""
	if len(args) > 0 {
		only = args[0]
	}
	self, _ := os.Executable()
	fails := 0
	for _, m := range ms {
		if only != "" && !strings.Contains(m.Name, only) && m.Property != only {
			continue
		}
		src, err := os.ReadFile(filepath.Join(repoRoot(), m.File))
		if err != nil || strings.Count(string(src), m.Old) != 1 {
			fmt.Printf("%-32s SKIPPED: the text to mutate occurs %d times in %s\n", m.Name, strings.Count(string(src), m.Old), m.File)
			fails++
			continue
		}
		tmp, _ := os.MkdirTemp(scratchDir(), "mut")
		mf := filepath.Join(tmp, filepath.Base(m.File))
		os.WriteFile(mf, []byte(strings.Replace(string(src), m.Old, m.New, 1)), 0o644)
		ov, _ := json.Marshal(map[string]string{filepath.Join(repoRoot(), m.File): mf})
		ovf := filepath.Join(tmp, "ov.json")
		os.WriteFile(ovf, ov, 0o644)
		cmd := exec.Command(self, "check", m.Property, "quick")
		cmd.Env = append(os.Environ(), "GOVC_OVERLAY="+ovf, "GOVC_NO_EVIDENCE=1")
		out, _ := cmd.CombinedOutput()
		os.RemoveAll(tmp)
		caught := false
		for _, ln := range strings.Split(string(out), "\n") {
			if strings.HasPrefix(ln, "VIOLATION") && (strings.Contains(ln, sanitize(m.Expect)) || strings.Contains(ln, "bounded") && strings.HasPrefix(m.Expect, "bounded")) {
				caught = true
			}
		}
		if caught {
			fmt.Printf("%-32s caught (%s)\n", m.Name, m.Property)
		} else {
			fmt.Printf("%-32s MISSED (%s): expected a violation naming %q\n%s\n", m.Name, m.Property, m.Expect, truncate(string(out), 1500))
			fails++
		}
	}
	if fails > 0 {
		os.Exit(1)
	}
}
