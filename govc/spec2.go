package main

// Contract builtins, spec functions, lemmas.

import (
	"fmt"
	"go/types"
	"strings"
)

func (x *Exec) evalCall(env *SpecEnv, e *ECall) SVal {
	// conversion with a type value: (*T)(x), []byte(x)
	if tv, ok := e.Fun.(*ETypeVal); ok {
		T := x.resolveType(env, tv.T)
		if len(e.Args) == 0 && T.Math != "" {
			return x.emptyMath(T)
		}
		if len(e.Args) != 1 {
			sfail("conversion needs one argument")
		}
		return x.specConvert(env, x.eval(env, e.Args[0]), T)
	}
	id, ok := e.Fun.(*EIdent)
	if !ok {
		// pkg.Func(...) : type conversion pkg.T(x) or spec in other package
		if sel, ok := e.Fun.(*ESel); ok {
			if pid, ok := sel.X.(*EIdent); ok {
				if p := x.findPkg(env, pid.Name); p != nil {
					if tn, ok := p.Scope().Lookup(sel.Sel).(*types.TypeName); ok && len(e.Args) == 1 {
						return x.specConvert(env, x.eval(env, e.Args[0]), goT(tn.Type()))
					}
				}
			}
		}
		sfail("unsupported call expression")
	}
	name := id.Name
	arg := func(i int) SVal {
		if i >= len(e.Args) {
			sfail("%s: missing argument %d", name, i)
		}
		return x.eval(env, e.Args[i])
	}
	switch name {
	case "len":
		a := arg(0)
		switch v := a.V.(type) {
		case VStr:
			return SVal{VScalar{v.Len}, intT}
		case VSlice:
			return SVal{VScalar{v.Len}, intT}
		case VSeq:
			return SVal{VScalar{v.Len}, intT}
		case VArr:
			return SVal{VScalar{IntLit(v.N)}, intT}
		case VScalar:
			if a.T != nil && a.T.G != nil {
				if _, ok := a.T.G.Underlying().(*types.Map); ok {
					// in contracts the length of a map is the cardinality of its key set
					dom, _, _, ks, _ := mapNames(a.T.G)
					d := x.heapGet(env.st, dom, ArrSort(SInt, ArrSort(ks, SBool)))
					return SVal{VScalar{Ite(Eq(v.T, IntLit(0)), IntLit(0), x.card(Select(d, v.T)))}, intT}
				}
			}
		}
		sfail("len of %T", a.V)
	case "cap":
		a := arg(0)
		if v, ok := a.V.(VSlice); ok {
			return SVal{VScalar{v.Cap}, intT}
		}
		sfail("cap of %T", a.V)
	case "typeof":
		return arg(0)
	case "istype":
		// istype(e, T)
		if len(e.Args) != 2 {
			sfail("istype(e, T)")
		}
		T := x.typeArg(env, e.Args[1])
		return x.cmpTag("==", arg(0), T)
	case "fresh":
		// fresh(p): p was allocated during this call (ref above the entry watermark)
		a := arg(0)
		if env.old == nil {
			sfail("fresh() needs a pre-state")
		}
		r := x.flatten(a.V)[0]
		if s, ok := a.V.(VSlice); ok {
			r = s.Arr
		}
		return SVal{VScalar{Gt(r, env.old.wm)}, boolT}
	case "allocated":
		a := arg(0)
		r := x.flatten(a.V)[0]
		if sl, ok := a.V.(VSlice); ok {
			r = sl.Arr
		}
		return SVal{VScalar{And(Le(IntLit(0), r), Le(r, env.st.wm))}, boolT}
	case "sbase":
		s := arg(0).V.(VStr)
		return SVal{VStr{s.Base, IntLit(0), x.slen(s.Base)}, stringT}
	case "soff":
		return SVal{VScalar{arg(0).V.(VStr).Off}, intT}
	case "send":
		s := arg(0).V.(VStr)
		return SVal{VScalar{addSimpl(s.Off, s.Len)}, intT}
	case "arr":
		s, ok := arg(0).V.(VSlice)
		if !ok {
			sfail("arr() needs a slice")
		}
		return SVal{VScalar{s.Arr}, intT}
	case "off":
		s, ok := arg(0).V.(VSlice)
		if !ok {
			sfail("off() needs a slice")
		}
		return SVal{VScalar{s.Off}, intT}
	case "min", "max":
		a, b := x.evalInt(env, e.Args[0]), x.evalInt(env, e.Args[1])
		if name == "min" {
			return SVal{VScalar{Ite(Le(a, b), a, b)}, intT}
		}
		return SVal{VScalar{Ite(Ge(a, b), a, b)}, intT}
	case "abs":
		a := x.evalInt(env, e.Args[0])
		return SVal{VScalar{Ite(Ge(a, IntLit(0)), a, App("-", SInt, a))}, intT}
	case "card":
		s, ok := arg(0).V.(VSet)
		if !ok {
			sfail("card needs a set")
		}
		return SVal{VScalar{x.card(s.T)}, intT}
	case "dom":
		a := arg(0)
		switch m := a.V.(type) {
		case VMMap:
			return SVal{VSet{m.Dom}, &SType{Math: "set", Elem: a.T.Key}}
		case VScalar:
			if mt, ok := a.T.G.Underlying().(*types.Map); ok {
				dom, _, _, ks, _ := mapNames(a.T.G)
				d := x.heapGet(env.st, dom, ArrSort(SInt, ArrSort(ks, SBool)))
				return SVal{VSet{Select(d, m.T)}, &SType{Math: "set", Elem: goT(mt.Key())}}
			}
		}
		sfail("dom needs a map")
	case "sadd", "sremove":
		a := arg(0)
		s, ok := a.V.(VSet)
		if !ok {
			sfail("%s needs a set", name)
		}
		k := x.flatten(arg(1).V)[0]
		return SVal{VSet{Store(s.T, k, Term{map[bool]string{true: "true", false: "false"}[name == "sadd"], SBool})}, a.T}
	case "mput":
		a := arg(0)
		m, ok := a.V.(VMMap)
		if !ok {
			sfail("mput needs an mmap")
		}
		k := x.flatten(arg(1).V)[0]
		vs := x.flatten(arg(2).V)
		nv := make([]Term, len(m.Vals))
		for i := range m.Vals {
			nv[i] = Store(m.Vals[i], k, vs[i])
		}
		return SVal{VMMap{Store(m.Dom, k, True), nv}, a.T}
	case "mdel":
		a := arg(0)
		m, ok := a.V.(VMMap)
		if !ok {
			sfail("mdel needs an mmap")
		}
		k := x.flatten(arg(1).V)[0]
		return SVal{VMMap{Store(m.Dom, k, False), m.Vals}, a.T}
	case "mapview":
		// mapview(m): the Go map m as a mathematical map
		a := arg(0)
		mt, ok := a.T.G.Underlying().(*types.Map)
		if !ok {
			sfail("mapview needs a Go map")
		}
		dom, _, vals, ks, vl := mapNames(a.T.G)
		ref := a.V.(VScalar).T
		d := x.heapGet(env.st, dom, ArrSort(SInt, ArrSort(ks, SBool)))
		var vs []Term
		for i, n := range vals {
			arr := x.heapGet(env.st, n, ArrSort(SInt, ArrSort(ks, vl[i].Sort)))
			vs = append(vs, Select(arr, ref))
		}
		return SVal{VMMap{Select(d, ref), vs}, &SType{Math: "mmap", Key: goT(mt.Key()), Elem: goT(mt.Elem())}}
	case "seq1":
		a := arg(0)
		ts := x.flatten(a.V)
		arrs := make([]Term, len(ts))
		for i, t := range ts {
			s := ArrSort(SInt, t.Sort)
			_ = s
			arrs[i] = x.constArray(SInt, t)
		}
		return SVal{VSeq{arrs, IntLit(1)}, &SType{Math: "seq", Elem: a.T}}
	case "supd":
		// supd(s, i, v)
		a := arg(0)
		s, ok := a.V.(VSeq)
		if !ok {
			sfail("supd needs a seq")
		}
		i := x.evalInt(env, e.Args[1])
		vs := x.flatten(arg(2).V)
		arrs := make([]Term, len(s.Arrs))
		for k := range s.Arrs {
			arrs[k] = Store(s.Arrs[k], i, vs[k])
		}
		return SVal{VSeq{arrs, s.Len}, a.T}
	case "string":
		return x.specConvert(env, arg(0), stringT)
	case "int", "int64", "int32", "uint64", "uint32", "uint8", "byte", "uint", "int8", "int16", "uint16", "float64":
		tn := types.Universe.Lookup(name).(*types.TypeName)
		return x.specConvert(env, arg(0), goT(tn.Type()))
	case "tolower":
		s := arg(0).V.(VStr)
		t := App("tolower", SStr, x.strTerm(s))
		return SVal{VStr{t, IntLit(0), x.slen(t)}, stringT}
	case "beq":
		// beq(a, b): the two byte strings have the same length and bytes (strings or []byte)
		a, b := arg(0), arg(1)
		sa := x.specConvert(env, a, stringT).V.(VStr)
		sb := x.specConvert(env, b, stringT).V.(VStr)
		x.nfresh++
		k := Term{fmt.Sprintf("q.bk!%d", x.nfresh), SInt}
		ea, eb := x.sat(sa.Base, At(sa.Off, k)), x.sat(sb.Base, At(sb.Off, k))
		return SVal{VScalar{And(Eq(sa.Len, sb.Len), Term{fmt.Sprintf("(forall ((%s Int)) (! (=> (and (<= 0 %s) (< %s %s)) (= %s %s)) :pattern (%s) :pattern (%s)))", k.S, k.S, k.S, sa.Len.S, ea.S, eb.S, ea.S, eb.S), SBool})}, boolT}
	case "any":
		a := arg(0)
		if i, ok := a.V.(VIface); ok {
			return SVal{i, goT(types.NewInterfaceType(nil, nil))}
		}
		return SVal{x.makeIfaceQuiet(a.V, a.T.G), goT(types.NewInterfaceType(nil, nil))}
	case "hasprefix":
		// hasprefix(s, "literal")
		sv, ok := arg(0).V.(VStr)
		lit, ok2 := e.Args[1].(*EStrLit)
		if !ok || !ok2 {
			sfail("hasprefix(s, \"literal\")")
		}
		conj := []Term{Ge(sv.Len, IntLit(int64(len(lit.Val))))}
		for i := 0; i < len(lit.Val); i++ {
			conj = append(conj, Eq(x.sat(sv.Base, At(sv.Off, IntLit(int64(i)))), IntLit(int64(lit.Val[i]))))
		}
		return SVal{VScalar{And(conj...)}, boolT}
	case "addr":
		// addr(x.f): the address of a field that is itself a struct value (an embedded mutex): the identity under
		// which &x.f appears in the ghost locksets
		if len(e.Args) != 1 {
			sfail("addr(x.f)")
		}
		// addr(v) for a package-level variable v (a global mutex): the identity of &v
		if id, ok := e.Args[0].(*EIdent); ok && env.pkg != nil {
			if _, isLocal := env.vars[id.Name]; !isLocal {
				if obj, ok := env.pkg.Scope().Lookup(id.Name).(*types.Var); ok {
					return SVal{VScalar{x.declare("addr.global."+sanitize(obj.Pkg().Path()+"."+obj.Name()), SInt)}, intT}
				}
			}
		}
		pl := x.exprPlace(env, e.Args[0])
		return SVal{VScalar{x.refOfPtr(VPtr{pl})}, intT}
	case "hint":
		// hint(e): a trigger device. Semantically true for every e (axiom below, itself triggered only by a
		// hint term), so guarding a clause with it changes nothing; as an explicit pattern { hint(f) } it makes
		// a hypothesis instantiate exactly for the terms a goal names with hint(...).
		a := arg(0)
		var t Term
		if s, ok := a.V.(VStr); ok {
			t = x.strTerm(s)
		} else {
			t = x.flatten(a.V)[0]
		}
		fn := "hint." + sanitize(string(t.Sort))
		if !x.declared[fn] {
			x.declared[fn] = true
			x.decls = append(x.decls,
				fmt.Sprintf("(declare-fun %s (%s) Bool)", fn, t.Sort),
				fmt.Sprintf("(assert (forall ((h %s)) (! (%s h) :pattern ((%s h)))))", t.Sort, fn, fn))
		}
		return SVal{VScalar{App(fn, SBool, t)}, boolT}
	case "held":
		return SVal{x.ghostGet(env.st, "held", VSet{x.emptySetTerm(SInt)}), &SType{Math: "set", Elem: intT}}
	case "isnil":
		return SVal{VScalar{x.isNil(arg(0))}, boolT}
	case "wrapu64":
		return SVal{VScalar{wrapInt(x.evalInt(env, e.Args[0]), types.Typ[types.Uint64], false)}, goT(types.Typ[types.Uint64])}
	case "wrap64":
		return SVal{VScalar{wrapInt(x.evalInt(env, e.Args[0]), types.Typ[types.Int64], false)}, goT(types.Typ[types.Int64])}
	}
	// type conversion by local type name
	if env.pkg != nil {
		if tn, ok := env.pkg.Scope().Lookup(name).(*types.TypeName); ok && len(e.Args) == 1 {
			return x.specConvert(env, arg(0), goT(tn.Type()))
		}
	}
	// spec function
	if sf, ok := x.C.Specs[name]; ok {
		var args []SVal
		for i := range e.Args {
			args = append(args, arg(i))
		}
		return x.applySpec(env, sf, args)
	}
	sfail("unknown function %s in contract", name)
	return SVal{}
}

func (x *Exec) typeArg(env *SpecEnv, e Expr) *SType {
	switch e := e.(type) {
	case *ETypeVal:
		return x.resolveType(env, e.T)
	case *EIdent:
		return x.resolveType(env, &TypeExpr{Kind: "name", Name: e.Name})
	case *ESel:
		if id, ok := e.X.(*EIdent); ok {
			return x.resolveType(env, &TypeExpr{Kind: "name", Name: id.Name + "." + e.Sel})
		}
	}
	sfail("expected a type")
	return nil
}

func (x *Exec) emptySetTerm(ks Sort) Term {
	s := ArrSort(ks, SBool)
	return App("(as const "+string(s)+")", s, False)
}

func (x *Exec) emptyMath(T *SType) SVal {
	switch T.Math {
	case "set":
		ks := leavesOfS(T.Elem)[0].Sort
		return SVal{VSet{x.emptySetTerm(ks)}, T}
	case "mmap":
		ks := leavesOfS(T.Key)[0].Sort
		var vals []Term
		for _, l := range leavesOfS(T.Elem) {
			vals = append(vals, x.declare("dflt."+sanitize(string(ArrSort(ks, l.Sort))), ArrSort(ks, l.Sort)))
		}
		return SVal{VMMap{x.emptySetTerm(ks), vals}, T}
	case "seq":
		var arrs []Term
		for _, l := range leavesOfS(T.Elem) {
			arrs = append(arrs, x.declare("dflt."+sanitize(string(ArrSort(SInt, l.Sort))), ArrSort(SInt, l.Sort)))
		}
		return SVal{VSeq{arrs, IntLit(0)}, T}
	}
	sfail("empty value of %s", T)
	return SVal{}
}

func (x *Exec) card(s Term) Term {
	ks := idxSortOf(s.Sort)
	fn := "card." + sanitize(string(ks))
	if !x.declared[fn] {
		x.declared[fn] = true
		as := ArrSort(ks, SBool)
		x.decls = append(x.decls,
			fmt.Sprintf("(declare-fun %s (%s) Int)", fn, as),
			fmt.Sprintf("(assert (forall ((s %s)) (! (>= (%s s) 0) :pattern ((%s s)))))", as, fn, fn),
			fmt.Sprintf("(assert (= (%s ((as const %s) false)) 0))", fn, as),
			fmt.Sprintf("(assert (forall ((s %s) (k %s)) (! (=> (select s k) (> (%s s) 0)) :pattern ((select s k) (%s s)))))", as, ks, fn, fn),
			fmt.Sprintf("(assert (forall ((s %s) (k %s)) (! (= (%s (store s k true)) (ite (select s k) (%s s) (+ (%s s) 1))) :pattern ((%s (store s k true))))))", as, ks, fn, fn, fn, fn),
			fmt.Sprintf("(assert (forall ((s %s) (k %s)) (! (= (%s (store s k false)) (ite (select s k) (- (%s s) 1) (%s s))) :pattern ((%s (store s k false))))))", as, ks, fn, fn, fn, fn),
		)
		x.trusted["axioms: finite-set cardinality (card of empty / insert / remove)"] = true
	}
	return App(fn, SInt, s)
}

func (x *Exec) specConvert(env *SpecEnv, a SVal, T *SType) SVal {
	if T.Math != "" {
		sfail("conversion to math type")
	}
	switch t := T.G.Underlying().(type) {
	case *types.Basic:
		switch {
		case t.Info()&types.IsString != 0:
			switch v := a.V.(type) {
			case VStr:
				return SVal{v, T}
			case VSlice:
				if env.noHeap {
					sfail("string([]byte) in heap-independent spec function")
				}
				arr := x.heapGet(env.st, "E|uint8|", ArrSort(SInt, ArrSort(SInt, SInt)))
				base := App("ofbytes", SStr, Select(arr, v.Arr), v.Off, v.Len)
				return SVal{VStr{base, IntLit(0), x.slen(base)}, T}
			}
		case t.Info()&types.IsInteger != 0:
			if s, ok := a.V.(VScalar); ok {
				if s.T.Sort == SInt {
					if a.T != nil && a.T.G != nil && !isUntyped(a.T.G) {
						if flo, fhi, ok := intRange(a.T.G); ok {
							tlo, thi, _ := intRange(T.G)
							if cmpDec(flo, tlo) >= 0 && cmpDec(fhi, thi) <= 0 {
								return SVal{s, T}
							}
						}
						return SVal{VScalar{wrapInt(s.T, T.G, false)}, T}
					}
					return SVal{s, T} // untyped/mathematical integers convert without wrapping
				}
				if s.T.Sort == SF64 {
					return SVal{VScalar{App("f64.toint", SInt, s.T)}, T}
				}
			}
		case t.Info()&types.IsFloat != 0:
			if s, ok := a.V.(VScalar); ok {
				if s.T.Sort == SInt {
					return SVal{VScalar{App("f64.ofint", SF64, s.T)}, T}
				}
				return SVal{s, T}
			}
		}
	case *types.Interface:
		if i, ok := a.V.(VIface); ok {
			return SVal{i, T}
		}
		if a.T != nil && a.T.G != nil {
			return SVal{x.makeIfaceQuiet(a.V, a.T.G), T}
		}
	default:
		return SVal{a.V, T}
	}
	sfail("unsupported conversion to %s", T)
	return SVal{}
}

func (x *Exec) makeIfaceQuiet(v Value, t types.Type) VIface {
	tag := x.typeTag(t)
	if pointerShaped(t) {
		return VIface{tag, x.flatten(v)[0]}
	}
	ts := x.flatten(v)
	ls := leavesOf(t)
	if len(ls) == 1 && ls[0].Sort == SInt {
		return VIface{tag, ts[0]}
	}
	return VIface{tag, x.mkbox(t, ts)}
}

// ---------------------------------------------------------------------------
// spec functions

func specSym(sf *SpecFunc) string { return "spec." + sf.Name }

func (x *Exec) isRecursive(sf *SpecFunc) bool {
	if sf.Body == nil {
		return false
	}
	if len(sf.Decreases) > 0 {
		return true
	}
	return mentionsCall(sf.Body, sf.Name)
}

func mentionsCall(e Expr, name string) bool {
	found := false
	walkExpr(e, func(n Expr) {
		if c, ok := n.(*ECall); ok {
			if id, ok := c.Fun.(*EIdent); ok && id.Name == name {
				found = true
			}
		}
	})
	return found
}

func walkExpr(e Expr, f func(Expr)) {
	if e == nil {
		return
	}
	f(e)
	switch e := e.(type) {
	case *EUnary:
		walkExpr(e.X, f)
	case *EBinary:
		walkExpr(e.X, f)
		walkExpr(e.Y, f)
	case *ECond:
		walkExpr(e.C, f)
		walkExpr(e.A, f)
		walkExpr(e.B, f)
	case *ECall:
		walkExpr(e.Fun, f)
		for _, a := range e.Args {
			walkExpr(a, f)
		}
	case *ESel:
		walkExpr(e.X, f)
	case *EIndex:
		walkExpr(e.X, f)
		walkExpr(e.I, f)
	case *ESlice:
		walkExpr(e.X, f)
		walkExpr(e.Lo, f)
		walkExpr(e.Hi, f)
	case *EAssertT:
		walkExpr(e.X, f)
	case *EQuant:
		walkExpr(e.Body, f)
		for _, tr := range e.Trig {
			for _, t := range tr {
				walkExpr(t, f)
			}
		}
	case *EOld:
		walkExpr(e.X, f)
	case *ELet:
		walkExpr(e.Val, f)
		walkExpr(e.Body, f)
	}
}

func (x *Exec) specEnvFor(sf *SpecFunc, env *SpecEnv) *SpecEnv {
	n := *env
	if p := x.typesPkg(sf.Pkg); p != nil {
		n.pkg = p
	}
	return &n
}

// typesPkg finds the types.Package of a scope package by its short name, loaded or imported.
func (x *Exec) typesPkg(short string) *types.Package {
	if p, ok := x.P.Pkgs[short]; ok {
		return p.Types
	}
	path, ok := scopePkgs[short]
	if !ok {
		return nil
	}
	seen := map[*types.Package]bool{}
	var find func(p *types.Package) *types.Package
	find = func(p *types.Package) *types.Package {
		if p == nil || seen[p] {
			return nil
		}
		seen[p] = true
		if p.Path() == path {
			return p
		}
		for _, imp := range p.Imports() {
			if r := find(imp); r != nil {
				return r
			}
		}
		return nil
	}
	for _, lp := range x.P.Pkgs {
		if r := find(lp.Types); r != nil {
			return r
		}
	}
	return nil
}

func (x *Exec) applySpec(env *SpecEnv, sf *SpecFunc, args []SVal) SVal {
	if len(args) != len(sf.Params) {
		sfail("spec %s: %d arguments, want %d", sf.Name, len(args), len(sf.Params))
	}
	denv := x.specEnvFor(sf, env)
	RT := x.resolveType(denv, sf.Result)
	if sf.Body != nil && !x.isRecursive(sf) {
		// macro expansion in the caller's state
		n := *denv
		n.vars = map[string]SVal{}
		n.fr, n.li = nil, nil
		for i, p := range sf.Params {
			PT := x.resolveType(denv, p.T)
			n.vars[p.Name] = SVal{x.adapt(args[i], PT), PT}
		}
		r := x.eval(&n, sf.Body)
		r.T = RT
		return r
	}
	// uninterpreted or recursive: an SMT function over flattened leaves
	x.ensureSpecDeclared(denv, sf)
	var ts []Term
	for i, p := range sf.Params {
		PT := x.resolveType(denv, p.T)
		ts = append(ts, x.flatten(x.adapt(args[i], PT))...)
	}
	rl := leavesOfS(RT)
	if len(rl) != 1 {
		sfail("spec %s: result must be a single-leaf type", sf.Name)
	}
	t := App(specSym(sf), rl[0].Sort, ts...)
	if len(ts) == 0 {
		t = Term{specSym(sf), rl[0].Sort}
	}
	return SVal{x.unflattenS(RT, []Term{t}), RT}
}

// adapt converts an argument to a parameter type (untyped ints, []byte -> string never implicit).
func (x *Exec) adapt(a SVal, T *SType) Value {
	return a.V
}

func (x *Exec) ensureSpecDeclared(env *SpecEnv, sf *SpecFunc) {
	if x.specUsed[sf.Name] {
		return
	}
	x.specUsed[sf.Name] = true
	var params []string
	var sorts []string
	vars := map[string]SVal{}
	for _, p := range sf.Params {
		PT := x.resolveType(env, p.T)
		ls := leavesOfS(PT)
		var ts []Term
		for _, l := range ls {
			n := "p." + sanitize(p.Name) + sanitize(l.Name)
			params = append(params, fmt.Sprintf("(%s %s)", n, l.Sort))
			sorts = append(sorts, string(l.Sort))
			ts = append(ts, Term{n, l.Sort})
		}
		vars[p.Name] = SVal{x.unflattenS(PT, ts), PT}
	}
	RT := x.resolveType(env, sf.Result)
	rs := leavesOfS(RT)[0].Sort
	if sf.Body == nil {
		x.decls = append(x.decls, fmt.Sprintf("(declare-fun %s (%s) %s)", specSym(sf), strings.Join(sorts, " "), rs))
		return
	}
	n := &SpecEnv{x: x, st: env.st, vars: vars, pkg: env.pkg, noHeap: true, quant: 1}
	x.quantDepth++
	// reserve position: callee specs referenced by the body are declared first (during evaluation)
	body := x.eval(n, sf.Body)
	x.quantDepth--
	bt := x.flatten(body.V)[0]
	x.decls = append(x.decls, fmt.Sprintf("(define-fun-rec %s (%s) %s %s)", specSym(sf), strings.Join(params, " "), rs, bt.S))
}

// lemmaAxioms returns the assumptions contributed by lemmas/axioms whose spec functions are all in use.
func (x *Exec) lemmaAxioms(st *State, pkg *types.Package) {
	if x.lemmasIn {
		return
	}
	x.lemmasIn = true
	x.lemmaStart = len(x.asserts)
	// decimal literals parse to their value (facts about the trusted strconv model)
	if x.specUsed["atoiOK"] {
		for _, lit := range x.litOrder {
			if isDecimalLit(lit) {
				t := x.lits[lit]
				x.assume(Term{"(spec.atoiOK " + t.S + ")", SBool})
				if x.specUsed["atoiVal"] {
					x.assume(Eq(Term{"(spec.atoiVal " + t.S + ")", SInt}, IntLitStr(normDec(lit))))
				}
			}
		}
	}
	for _, lm := range x.C.Lemmas {
		used := true
		mentions := false
		for _, c := range append(append([]*Clause{}, lm.Requires...), lm.Ensures...) {
			walkExpr(c.E, func(n Expr) {
				if call, ok := n.(*ECall); ok {
					if id, ok := call.Fun.(*EIdent); ok {
						if _, isSpec := x.C.Specs[id.Name]; isSpec {
							mentions = true
							if !x.specUsed[id.Name] {
								used = false
							}
						}
					}
				}
			})
		}
		if !used || !mentions {
			continue
		}
		t, ok := x.lemmaFormula(st, lm)
		if !ok {
			continue
		}
		x.assume(t)
		if lm.Axiom {
			x.trusted["axiom "+lm.Name] = true
		} else {
			x.trusted["lemma "+lm.Name+" (proved separately)"] = true
		}
	}
}

func (x *Exec) lemmaFormula(st *State, lm *Lemma) (t Term, ok bool) {
	defer func() {
		if r := recover(); r != nil {
			if se, isS := r.(specErr); isS {
				x.note("lemma %s: %s", lm.Name, se.msg)
				ok = false
				return
			}
			panic(r)
		}
	}()
	env := &SpecEnv{x: x, st: st, vars: map[string]SVal{}, noHeap: true, quant: 1}
	if p, okp := x.P.Pkgs[lm.Pkg]; okp {
		env.pkg = p.Types
	}
	var binders []string
	guards := []Term{}
	for _, p := range lm.Params {
		T := x.resolveType(env, p.T)
		v, bs, g := x.qvar(p.Name, T)
		env.vars[p.Name] = v
		binders = append(binders, bs...)
		guards = append(guards, g)
	}
	x.quantDepth++
	defer func() { x.quantDepth-- }()
	var pre []Term
	pre = append(pre, guards...)
	for _, c := range lm.Requires {
		pre = append(pre, x.evalBool(env, c.E))
	}
	var post []Term
	for _, c := range lm.Ensures {
		post = append(post, x.evalBool(env, c.E))
	}
	body := Implies(And(pre...), And(post...))
	var pats []string
	for _, tr := range lm.Trig {
		var ps []string
		for _, te := range tr {
			v := x.eval(env, te)
			for _, tt := range x.flatten(v.V) {
				ps = append(ps, tt.S)
			}
		}
		pats = append(pats, ":pattern ("+strings.Join(ps, " ")+")")
	}
	txt := body.S
	if len(pats) > 0 {
		txt = "(! " + txt + " " + strings.Join(pats, " ") + ")"
	}
	if len(binders) == 0 {
		return body, true
	}
	return Term{fmt.Sprintf("(forall (%s) %s)", strings.Join(binders, " "), txt), SBool}, true
}

func isDecimalLit(s string) bool {
	t := s
	if strings.HasPrefix(t, "-") || strings.HasPrefix(t, "+") {
		t = t[1:]
	}
	if len(t) == 0 || len(t) > 18 {
		return false
	}
	for _, c := range t {
		if c < '0' || c > '9' {
			return false
		}
	}
	return true
}

func normDec(s string) string {
	neg := strings.HasPrefix(s, "-")
	t := strings.TrimLeft(strings.TrimLeft(s, "+-"), "0")
	if t == "" {
		return "0"
	}
	if neg {
		return "-" + t
	}
	return t
}
