package main

// Property checks: plans, obligation selection, known findings, evidence, VIOLATION lines.

import (
	"encoding/json"
	"fmt"
	"os"
	"path/filepath"
	"sort"
	"strconv"
	"strings"
	"sync"
	"time"

	"golang.org/x/tools/go/ssa"
)

type PlanFunc struct {
	Key     string   `json:"key"`     // exact key or glob with '*'
	Select  []string `json:"select"`  // obligation kinds
	Exclude []string `json:"exclude"` // keys excluded from a glob
}

type PlanBounded struct {
	Name  string `json:"name"`
	Cmd   string `json:"cmd"`   // go test overlay spec: package + test name
	Bound string `json:"bound"` // stated bound
	Pkg   string `json:"pkg"`
	Test  string `json:"test"`
	File  string `json:"file"` // test source under /verif/bounded/
}

type Plan struct {
	Property  string        `json:"property"`
	Level     string        `json:"level"`
	Packages  []string      `json:"packages"`
	Functions []PlanFunc    `json:"functions"`
	Bounded   []PlanBounded `json:"bounded"`
	Assume    []string      `json:"assumptions"`
	Lemmas    []string      `json:"lemmas"`
}

type KnownFinding struct {
	Property   string `json:"property"`
	Obligation string `json:"obligation"`
	What       string `json:"what"`
	Witness    string `json:"witness,omitempty"`
}

type FixedFinding struct {
	Property string `json:"property"`
	Commit   string `json:"commit"`
	What     string `json:"what"`
}

type KnownFile struct {
	Known []KnownFinding `json:"known"`
	Fixed []FixedFinding `json:"fixed"`
}

func loadPlan(id string) (*Plan, error) {
	data, err := os.ReadFile(filepath.Join(verifRoot(), "plan", id+".json"))
	if err != nil {
		return nil, err
	}
	var p Plan
	if err := json.Unmarshal(data, &p); err != nil {
		return nil, fmt.Errorf("plan %s: %v", id, err)
	}
	return &p, nil
}

func loadKnown() (*KnownFile, error) {
	var k KnownFile
	data, err := os.ReadFile(filepath.Join(verifRoot(), "known_findings.json"))
	if err != nil {
		if os.IsNotExist(err) {
			return &k, nil
		}
		return nil, err
	}
	if err := json.Unmarshal(data, &k); err != nil {
		return nil, err
	}
	return &k, nil
}

func globMatch(pat, s string) bool {
	if !strings.Contains(pat, "*") {
		return pat == s
	}
	parts := strings.Split(pat, "*")
	if !strings.HasPrefix(s, parts[0]) {
		return false
	}
	s = s[len(parts[0]):]
	for i := 1; i < len(parts); i++ {
		p := parts[i]
		if i == len(parts)-1 {
			return strings.HasSuffix(s, p)
		}
		j := strings.Index(s, p)
		if j < 0 {
			return false
		}
		s = s[j+len(p):]
	}
	return true
}

var safetyKinds = map[string]bool{"bounds": true, "nil": true, "div0": true, "assert-type": true, "alloc": true, "explicit-panic": true}

func selected(o *Obligation, prop string, kinds []string) bool {
	if o.Kind == "cover" {
		return true
	}
	in := false
	for _, k := range kinds {
		if k == o.Kind || (k == "safety" && safetyKinds[o.Kind]) || k == "all" {
			in = true
		}
	}
	// "all" really is all: an obligation is proved under the ones asserted before it on the same path, so a
	// check that skipped the clauses tagged for other properties could pass on a tree where one of those fails
	// and thereby props up a clause of this property
	if containsStr(kinds, "all") {
		return true
	}
	if len(o.Tags) > 0 {
		for _, t := range o.Tags {
			if t == prop {
				return in || containsStr(kinds, "tagged")
			}
		}
		return false
	}
	return in
}

func containsStr(xs []string, s string) bool {
	for _, x := range xs {
		if x == s {
			return true
		}
	}
	return false
}

type checkJob struct {
	fn   *ssa.Function
	key  string
	pf   PlanFunc
	res  *FuncResult
	sel  []*Obligation
	skip bool
}

func cmdCheck(args []string) {
	if len(args) < 1 {
		usage()
	}
	id := args[0]
	tier := "quick"
	if len(args) > 1 {
		tier = args[1]
	}
	if t := os.Getenv("VERIF_TIER"); t != "" && len(args) < 2 {
		tier = t
	}
	seed := 0
	if s := os.Getenv("VERIF_SEED"); s != "" {
		seed, _ = strconv.Atoi(s)
	}
	os.Exit(runCheck(id, tier, seed))
}

func runCheck(id, tier string, seed int) int {
	t0 := time.Now()
	plan, err := loadPlan(id)
	if err != nil {
		fmt.Fprintln(os.Stderr, "govc:", err)
		return 2
	}
	known, err := loadKnown()
	if err != nil {
		fmt.Fprintln(os.Stderr, "govc:", err)
		return 2
	}
	P, err := loadProgram(plan.Packages)
	if err != nil {
		fmt.Fprintln(os.Stderr, "govc: /repo does not type-check:", err)
		return 2
	}
	C, err := loadContracts(repoRoot(), plan.Packages)
	if err != nil {
		// a broken contract file is a failure of the check, not a silent pass
		writeReplay(id, "contracts", map[string]any{"error": err.Error()})
		fmt.Printf("VIOLATION property=%s replay=%s no-failing-input-found\n", id, replayPath(id, "contracts"))
		return 1
	}
	applyTemplates(P, C)
	// quick tier: 15 s per obligation (the slowest obligation of the unchanged tree needs under 4 s on this machine
	// and the whole suite has been seen to run three times slower on a loaded one); undecided ones get a second
	// chance with three times the limit
	timeout := 15
	if tier == "thorough" {
		timeout = 60
	}
	opts := VerifyOpts{TimeoutS: timeout, Seed: seed, Thorough: tier == "thorough"}

	// resolve plan functions
	var jobs []*checkJob
	seenFn := map[string]bool{}
	var problems []string
	for _, pf := range plan.Functions {
		if strings.Contains(pf.Key, "*") {
			pkg := strings.Split(pf.Key, ".")[0]
			n := 0
			for _, fn := range P.allSourceFuncs(pkg) {
				k := P.funcKey(fn)
				if !globMatch(pf.Key, k) || seenFn[k] {
					continue
				}
				ex := false
				for _, e := range pf.Exclude {
					if globMatch(e, k) {
						ex = true
					}
				}
				if ex {
					continue
				}
				seenFn[k] = true
				jobs = append(jobs, &checkJob{fn: fn, key: k, pf: pf})
				n++
			}
			if n == 0 {
				problems = append(problems, "plan pattern matches no function: "+pf.Key)
			}
			continue
		}
		fn := P.lookupFunc(pf.Key)
		if fn == nil {
			problems = append(problems, "function named by the plan does not exist: "+pf.Key)
			continue
		}
		if seenFn[pf.Key] {
			continue
		}
		seenFn[pf.Key] = true
		jobs = append(jobs, &checkJob{fn: fn, key: pf.Key, pf: pf})
	}
	// orphaned contracts (function renamed or deleted) in the plan's packages
	for key, fc := range C.Funcs {
		pkg := strings.Split(key, ".")[0]
		if !containsStr(plan.Packages, pkg) || fc.Pkg != pkg {
			continue
		}
		if P.lookupFunc(key) == nil && !fc.Flags["trusted"] && !fc.Flags["functype"] {
			problems = append(problems, "contract for a function that does not exist: "+key)
		}
	}

	// build VCs (sequential: the SSA program is shared) and discharge in parallel
	sem := make(chan struct{}, 20)
	var wg sync.WaitGroup
	for _, j := range jobs {
		j.res = buildVC(P, C, j.fn, false)
		if j.res.OutOfSubset != "" || j.res.Error != "" {
			continue
		}
		for _, o := range j.res.Obls {
			if selected(o, id, j.pf.Select) {
				j.sel = append(j.sel, o)
			}
		}
		// only selected obligations are solved
		sub := &FuncResult{Key: j.res.Key, Obls: j.sel, exec: j.res.exec}
		wg.Add(1)
		go func(j *checkJob, sub *FuncResult) {
			defer wg.Done()
			discharge(sub, opts, sem)
			j.res.Seconds = sub.Seconds
		}(j, sub)
	}
	// lemmas named by the plan are proved like any other obligation
	for _, ln := range plan.Lemmas {
		var lm *Lemma
		for _, l := range C.Lemmas {
			if l.Name == ln && !l.Axiom {
				lm = l
			}
		}
		if lm == nil {
			problems = append(problems, "lemma named by the plan does not exist (or is an axiom): "+ln)
			continue
		}
		res := buildLemmaVC(P, C, lm)
		j := &checkJob{key: "lemma." + ln, pf: PlanFunc{Key: "lemma." + ln, Select: []string{"all"}}, res: res}
		jobs = append(jobs, j)
		if res.Error != "" {
			continue
		}
		j.sel = res.Obls
		wg.Add(1)
		go func(res *FuncResult) {
			defer wg.Done()
			discharge(res, opts, sem)
		}(res)
	}
	wg.Wait()

	// second chance: an obligation left undecided (no solver answered within the time limit while up to 16
	// portfolios ran side by side) is tried again with three times the limit and little else running, so that
	// machine load cannot turn a proof into an alarm. Refuted obligations (sat) are not retried. Capped: when
	// many obligations are undecided the tree is broken anyway.
	if tier == "quick" && os.Getenv("GOVC_NO_RETRY") == "" {
		type redo struct {
			x *Exec
			o *Obligation
		}
		var again []redo
		for _, j := range jobs {
			if j.res == nil || j.res.exec == nil {
				continue
			}
			for _, o := range j.sel {
				if listedKnown(known, o.Name) {
					continue // a listed known finding is expected to stay undischarged
				}
				if o.Kind != "cover" && o.Result != nil && o.Result.Status != "unsat" && o.Result.Status != "sat" && len(again) < 24 {
					again = append(again, redo{j.res.exec, o})
				}
			}
		}
		sem2 := make(chan struct{}, 10)
		var wg2 sync.WaitGroup
		for _, r := range again {
			wg2.Add(1)
			go func(r redo) {
				defer wg2.Done()
				sub := &FuncResult{Key: r.o.Func, Obls: []*Obligation{r.o}, exec: r.x}
				o2 := opts
				o2.TimeoutS = 3 * timeout
				first := r.o.Result
				discharge(sub, o2, sem2)
				if r.o.Result == nil {
					r.o.Result = first
				} else if r.o.Result.Status == "unsat" {
					r.o.Result.Solver += "/retry"
				}
			}(r)
		}
		wg2.Wait()
	}

	// evaluate
	type sample struct {
		Obligation string  `json:"obligation"`
		Kind       string  `json:"kind"`
		Status     string  `json:"status"`
		Solver     string  `json:"solver"`
		Seconds    float64 `json:"seconds"`
		Where      string  `json:"where,omitempty"`
	}
	var samples []sample
	total, discharged, kfCount := 0, 0, 0
	coverTotal, coverSat := 0, 0
	violations := 0
	var outOfSubset []string
	trusted := map[string]bool{}
	var funcsUnder []string
	var noMeasure []string
	type slowObl struct {
		Name    string  `json:"obligation"`
		Seconds float64 `json:"seconds"`
		Solver  string  `json:"solver"`
	}
	var slowest []slowObl
	knownSeen := map[string]bool{}
	var deferred []string
	clauseSeen := map[string]bool{}
	var lines []string
	perSolver := map[string]int{}
	solverSecs := map[string]float64{}
	for _, j := range jobs {
		if j.res.OutOfSubset != "" {
			outOfSubset = append(outOfSubset, j.key+": "+j.res.OutOfSubset)
			problems = append(problems, "function in the plan is outside the verifier's subset: "+j.key+": "+j.res.OutOfSubset)
			continue
		}
		if j.res.Error != "" {
			problems = append(problems, "verifier error on "+j.key+": "+j.res.Error)
			continue
		}
		funcsUnder = append(funcsUnder, j.key)
		for _, t := range j.res.Trusted {
			trusted[t] = true
		}
		noMeasure = append(noMeasure, j.res.NoMeasure...)
		nonCover := 0
		for _, o := range j.sel {
			if o.Kind == "cover" {
				if o.Result != nil && o.Result.Status == "unsat" {
					problems = append(problems, "vacuous: "+o.Name+" of "+j.key+" is unsatisfiable (contradictory contract or assumptions)")
				}
				coverTotal++
				if o.Result != nil && o.Result.Status == "sat" {
					coverSat++
				}
				continue
			}
			nonCover++
			total++
			clauseSeen[o.Func+"|"+o.Kind+"|"+o.Text] = true
			if o.Result != nil && o.Result.Solver != "" {
				perSolver[o.Result.Solver]++
				solverSecs[o.Result.Solver] += o.Result.Seconds
				if o.Result.Seconds >= 1.0 {
					slowest = append(slowest, slowObl{o.Name, round3(o.Result.Seconds), o.Result.Solver})
				}
			}
			if obligationOK(o) {
				discharged++
				if len(samples) < 12 || (o.Kind == "post" && len(samples) < 40) {
					samples = append(samples, sample{o.Name, o.Kind, o.Result.Status, o.Result.Solver, round3(o.Result.Seconds), fmt.Sprintf("%s:%d", shortFile(o.Pos.Filename), o.Pos.Line)})
				}
				continue
			}
			// failing: known finding?
			kf := findKnown(known, id, o.Name)
			if kf != nil {
				kfCount++
				knownSeen[kf.Obligation] = true
				lines = append(lines, fmt.Sprintf("KNOWN-FINDING: property=%s %s [%s]", id, kf.What, o.Name))
				continue
			}
			// a clause tagged for another property whose failure is that property's listed known finding is that
			// property's business: it is reported (once) by that property's check, not as a violation of this one
			if other := findKnownOther(known, id, o); other != nil {
				deferred = append(deferred, other.Property+": "+o.Name)
				continue
			}
			violations++
			path := reportViolation(P, id, j, o)
			lines = append(lines, path)
		}
		if nonCover == 0 && len(j.pf.Select) > 0 && !strings.Contains(j.pf.Key, "*") && !containsStr(j.pf.Select, "optional") {
			problems = append(problems, "no obligation selected for "+j.key+" (vacuous plan entry)")
		}
	}
	// every listed known finding must still fail (canary); a finding that now verifies is reported, not fatal
	var staleKnown []string
	for _, kf := range known.Known {
		if kf.Property == id && !knownSeen[kf.Obligation] {
			staleKnown = append(staleKnown, kf.Obligation)
		}
	}
	for _, p := range problems {
		violations++
		name := "plan-" + strconv.Itoa(violations)
		writeReplay(id, name, map[string]any{"obligation": "vacuity/plan guard", "problem": p})
		lines = append(lines, fmt.Sprintf("VIOLATION property=%s replay=%s no-failing-input-found", id, replayPath(id, name)))
		fmt.Fprintln(os.Stderr, "govc:", p)
	}
	if total == 0 {
		violations++
		writeReplay(id, "no-obligations", map[string]any{"problem": "the plan generated no obligations"})
		lines = append(lines, fmt.Sprintf("VIOLATION property=%s replay=%s no-failing-input-found", id, replayPath(id, "no-obligations")))
	}

	// bounded stand-ins
	var boundedOut []map[string]any
	for _, b := range plan.Bounded {
		if os.Getenv("GOVC_NO_BOUNDED") != "" {
			continue
		}
		r := runBounded(b, tier, seed)
		boundedOut = append(boundedOut, r)
		if ok, _ := r["ok"].(bool); !ok {
			violations++
			name := "bounded-" + sanitize(b.Name)
			writeReplay(id, name, r)
			lines = append(lines, fmt.Sprintf("VIOLATION property=%s replay=%s", id, replayPath(id, name)))
		}
	}

	for _, l := range lines {
		fmt.Println(l)
	}

	// evidence
	var tb []string
	tb = append(tb, "golang.org/x/tools/go/ssa v0.29.0 (SSA faithful to the compiled source, linux/amd64)",
		"govc VC generator and memory model (/verif/govc; not itself verified; exercised by the must-fail selftest corpus)",
		"SMT solvers: z3 4.8.12, z3 5.1.0, cvc5 1.0.3 (an unsat answer is believed)")
	var tl []string
	for t := range trusted {
		tl = append(tl, t)
	}
	sort.Strings(tl)
	tb = append(tb, tl...)
	assumptions := append([]string{}, plan.Assume...)
	assumptions = append(assumptions,
		"integers: mathematical Int with explicit two's-complement wrap-around on every + - * conversion (not treated as unbounded)",
		"goroutines: each function is verified with sequential semantics; spawned goroutines are not followed",
		"every string, slice and map that exists in memory has at most 2^31 elements (modelling bound; allocation sizes computed from client-supplied integers are not covered by it and must be bounded by the code)")
	for _, n := range noMeasure {
		assumptions = append(assumptions, "termination not proved (no decreases clause): "+n)
	}
	sort.Strings(funcsUnder)
	cov := map[string]any{
		"obligations":               total,
		"discharged":                discharged,
		"known_finding_obligations": kfCount,
		"checker_cmd":               fmt.Sprintf("bin/check %s %s", id, tier),
		"trusted_base":              tb,
		"samples":                   samples,
		"functions_under_contract":  funcsUnder,
		"out_of_subset":             outOfSubset,
		"discharged_by_backend":     perSolver,
		"solver_seconds":            roundMap(solverSecs),
		"slowest_obligations":       func() []slowObl {
			sort.Slice(slowest, func(i, j int) bool { return slowest[i].Seconds > slowest[j].Seconds })
			if len(slowest) > 10 {
				return slowest[:10]
			}
			return slowest
		}(),
		"time_limit_per_obligation_s": timeout,
		"contracts_digest":          C.Digest,
		"contract_files":            relFiles(C.Files),
		"bounded_checks":            boundedOut,
		"cache_hits":                cacheHits,
		"cache_note":                "answers 'unsat' for byte-identical queries are reused for at most GOVC_CACHE_TTL seconds (default 3600) across the checks of different properties; every verification condition is still regenerated from /repo's working tree on every run; the thorough tier only reuses answers obtained by thorough runs",
		"stale_known_findings":      staleKnown,
		"deferred_to_other_property": deferred,
		"vacuity_guards":            map[string]any{"cover_checks": coverTotal, "proved_satisfiable": coverSat, "refuted": 0, "note": "a cover check asks the solvers whether the precondition / the function exit is reachable under all assumptions; 'unsat' would mean a contradictory contract and fails the check; with quantified assumptions the solvers usually answer 'unknown', which is tolerated"},
		"explanation":               "each obligation is one SMT query generated from the SSA of /repo's current working tree and the //@ contracts; discharged = unsat",
	}
	ev := map[string]any{
		"property_id": id,
		"tier":        tier,
		"seed":        seed,
		"level":       plan.Level,
		"coverage":    cov,
		"assumptions": assumptions,
		"wall_s":      round3(time.Since(t0).Seconds()),
		"violations":  violations,
	}
	if os.Getenv("GOVC_NO_EVIDENCE") == "" {
		os.MkdirAll(filepath.Join(verifRoot(), "evidence"), 0o755)
		data, _ := json.MarshalIndent(ev, "", " ")
		os.WriteFile(filepath.Join(verifRoot(), "evidence", id+".json"), data, 0o644)
	}
	fmt.Fprintf(os.Stderr, "govc: %s %s: %d obligations, %d discharged, %d known findings, %d violations, %.1fs\n", id, tier, total, discharged, kfCount, violations, time.Since(t0).Seconds())
	if violations > 0 {
		return 1
	}
	return 0
}

func relFiles(fs []string) []string {
	var out []string
	for _, f := range fs {
		out = append(out, strings.TrimPrefix(strings.TrimPrefix(f, repoRoot()+"/"), verifRoot()+"/"))
	}
	return out
}

func round3(f float64) float64 { return float64(int(f*1000+0.5)) / 1000 }

func roundMap(m map[string]float64) map[string]float64 {
	out := map[string]float64{}
	for k, v := range m {
		out[k] = round3(v)
	}
	return out
}

// findKnownOther: the failing obligation comes from a clause tagged with another property (and not with this one),
// and that property lists exactly this obligation as a known finding.
func findKnownOther(k *KnownFile, id string, o *Obligation) *KnownFinding {
	if len(o.Tags) == 0 || containsStr(o.Tags, id) {
		return nil
	}
	for i := range k.Known {
		if k.Known[i].Property != id && k.Known[i].Obligation == o.Name && containsStr(o.Tags, k.Known[i].Property) {
			return &k.Known[i]
		}
	}
	return nil
}

func listedKnown(k *KnownFile, obl string) bool {
	for i := range k.Known {
		if k.Known[i].Obligation == obl {
			return true
		}
	}
	return false
}

func findKnown(k *KnownFile, id, obl string) *KnownFinding {
	for i := range k.Known {
		if k.Known[i].Property == id && k.Known[i].Obligation == obl {
			return &k.Known[i]
		}
	}
	return nil
}

func replayPath(id, name string) string {
	return filepath.Join(verifRoot(), "replays", id, sanitize(name)+".json")
}

func writeReplay(id, name string, content map[string]any) {
	p := replayPath(id, name)
	os.MkdirAll(filepath.Dir(p), 0o755)
	data, _ := json.MarshalIndent(content, "", " ")
	os.WriteFile(p, data, 0o644)
}

// reportViolation writes the replay file for a failed obligation and returns the VIOLATION line.
var replayAttempts int

func reportViolation(P *Program, id string, j *checkJob, o *Obligation) string {
	rec := map[string]any{
		"property":   id,
		"obligation": o.Name,
		"kind":       o.Kind,
		"function":   o.Func,
		"text":       o.Text,
		"where":      fmt.Sprintf("%s:%d", shortFile(o.Pos.Filename), o.Pos.Line),
	}
	if o.Result != nil {
		rec["solver_status"] = o.Result.Status
		rec["solver"] = o.Result.Solver
		rec["solver_output"] = truncate(o.Result.Output, 4000)
		rec["per_solver"] = o.Result.All
	}
	confirmed := false
	// replaying costs two model queries of up to 14 s each plus a go test run: a change that breaks one function
	// usually fails many of its obligations, so only the first few violations of a run are replayed
	replayAttempts++
	if replayAttempts <= 6 {
		if rp := tryReplay(P, j, o, rec); rp {
			confirmed = true
		}
	} else {
		rec["replay_note"] = "not attempted: more than 6 violations in this run"
	}
	writeReplay(id, o.Name, rec)
	if confirmed {
		return fmt.Sprintf("VIOLATION property=%s replay=%s", id, replayPath(id, o.Name))
	}
	return fmt.Sprintf("VIOLATION property=%s replay=%s no-failing-input-found", id, replayPath(id, o.Name))
}

func truncate(s string, n int) string {
	if len(s) > n {
		return s[:n] + "..."
	}
	return s
}

func runBounded(b PlanBounded, tier string, seed int) map[string]any {
	return runBoundedTest(b, tier, seed)
}
