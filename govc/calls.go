package main

// Calls: builtins, contracts, inlining, unknown callees, defer, go.

import (
	"strconv"
	"os"
	"fmt"
	"go/token"
	"go/types"
	"sort"
	"strings"

	"golang.org/x/tools/go/ssa"
)

func (x *Exec) calleeKey(cc *ssa.CallCommon) (key string, callee *ssa.Function) {
	if cc.IsInvoke() {
		rt := cc.Value.Type()
		name := typeName(rt)
		if n, ok := rt.(*types.Named); ok && n.Obj().Pkg() != nil {
			short := x.P.Short[n.Obj().Pkg().Path()]
			if short == "" {
				short = aliasPkgs[n.Obj().Pkg().Path()]
			}
			if short == "" {
				short = n.Obj().Pkg().Path()
			}
			name = short + "." + n.Obj().Name()
		}
		return name + "." + cc.Method.Name(), nil
	}
	if f := cc.StaticCallee(); f != nil {
		return x.P.funcKey(f), f
	}
	return "", nil
}

func (x *Exec) execCall(fr *Frame, st *State, cc *ssa.CallCommon, site ssa.Value, pos token.Pos) Value {
	if b, ok := cc.Value.(*ssa.Builtin); ok {
		return x.execBuiltin(fr, st, b, cc, site, pos)
	}
	var args []Value
	if cc.IsInvoke() {
		args = append(args, x.get(fr, cc.Value))
	}
	for _, a := range cc.Args {
		args = append(args, x.get(fr, a))
	}
	key, callee := x.calleeKey(cc)
	sig := cc.Signature()
	var rt types.Type
	switch sig.Results().Len() {
	case 0:
	case 1:
		rt = sig.Results().At(0).Type()
	default:
		rt = sig.Results()
	}
	if cc.IsInvoke() {
		// receiver must be non-nil
		x.panicCheck(st, "nil", pos, Not(Eq(args[0].(VIface).Tag, IntLit(0))))
	}
	// closure called directly
	if callee == nil && !cc.IsInvoke() {
		if fv, ok := x.get(fr, cc.Value).(VFunc); ok {
			return x.callFunction(fr, st, fv.Fn, args, fv.Bindings, rt, pos, x.P.funcKey(fv.Fn))
		}
		// dynamic call through a func value
		fv := x.flatten(x.get(fr, cc.Value))[0]
		x.panicCheck(st, "nil", pos, Not(Eq(fv, IntLit(0))))
		// a named func type may carry a contract that every value of the type satisfies
		if nt, ok := cc.Value.Type().(*types.Named); ok && nt.Obj().Pkg() != nil {
			short := x.P.Short[nt.Obj().Pkg().Path()]
			if short == "" {
				short = strings.TrimPrefix(nt.Obj().Pkg().Path(), mainMod+"/")
			}
			if fc := x.C.Funcs[short+"."+nt.Obj().Name()]; fc != nil && fc.Flags["functype"] {
				return x.applyContract(fr, st, fc, nil, sig, short+"."+nt.Obj().Name(), args, rt, pos)
			}
		}
		// a func-typed struct field may carry a contract every value stored in it is assumed to satisfy
		// ("func T.field" with the flag functype)
		if u, ok := cc.Value.(*ssa.UnOp); ok && u.Op == token.MUL {
			if fa, ok := u.X.(*ssa.FieldAddr); ok {
				if pt, ok := fa.X.Type().Underlying().(*types.Pointer); ok {
					if nt, ok := pt.Elem().(*types.Named); ok && nt.Obj().Pkg() != nil {
						if stt, ok := nt.Underlying().(*types.Struct); ok {
							short := x.P.Short[nt.Obj().Pkg().Path()]
							if short == "" {
								short = strings.TrimPrefix(nt.Obj().Pkg().Path(), mainMod+"/")
							}
							k := short + "." + nt.Obj().Name() + "." + stt.Field(fa.Field).Name()
							if fc := x.C.Funcs[k]; fc != nil && fc.Flags["functype"] {
								return x.applyContract(fr, st, fc, nil, sig, k, args, rt, pos)
							}
						}
					}
				}
			}
		}
		return x.unknownCall(fr, st, "dynamic call "+x.srcAt(pos), rt, pos)
	}
	if callee != nil {
		if mc, ok := cc.Value.(*ssa.MakeClosure); ok {
			var bs []Value
			for _, b := range mc.Bindings {
				bs = append(bs, x.get(fr, b))
			}
			return x.callFunction(fr, st, callee, args, bs, rt, pos, key)
		}
		// closures handed to the callee: what they maintain holds before the call (checked) and after it (assumed:
		// the callee can reach the captured variables only by calling the closure, whose body is verified to
		// preserve it)
		handed := x.handedClosures(args)
		x.closureInvariants(fr, st, handed, pos, true)
		rv := x.callFunction(fr, st, callee, args, nil, rt, pos, key)
		x.closureInvariants(fr, st, handed, pos, false)
		return rv
	}
	// interface method
	if fc := x.C.Funcs[key]; fc != nil {
		return x.applyContract(fr, st, fc, nil, sig, key, args, rt, pos)
	}
	return x.unknownCall(fr, st, key, rt, pos)
}

// handedClosures: the closure values among the arguments whose contract declares "maintains" clauses.
func (x *Exec) handedClosures(args []Value) []*FuncContract {
	var out []*FuncContract
	for _, a := range args {
		if fv, ok := a.(VFunc); ok && len(fv.Bindings) > 0 {
			if fc := x.C.Funcs[x.P.funcKey(fv.Fn)]; fc != nil && len(fc.Maintains) > 0 {
				out = append(out, fc)
			}
		}
	}
	return out
}

// closureInvariants checks (before the call) or assumes (after it) the maintains clauses of the closures handed
// to a callee; they are evaluated in the creator's frame, where the captured variables are its own locals.
func (x *Exec) closureInvariants(fr *Frame, st *State, fcs []*FuncContract, pos token.Pos, check bool) {
	for _, fc := range fcs {
		env := &SpecEnv{x: x, st: st, old: fr.entrySt, vars: map[string]SVal{}, fr: fr}
		if fr.fn.Pkg != nil {
			env.pkg = fr.fn.Pkg.Pkg
		}
		for _, c := range fc.Maintains {
			g := x.safeEvalBool(env, c, fc.Key)
			if check {
				x.check(st, "pre", c.Tags, pos, fc.Key+" maintains: "+c.Text, g)
			} else {
				x.assume(Implies(st.pc, g))
				x.trusted["closure "+fc.Key+": what it maintains is assumed to hold again after a call that was handed the closure (the callee reaches the captured variables only through the closure, whose body is verified to preserve it)"] = true
			}
		}
	}
}

// libraryKey: the contract key names a function or interface method of a package outside the verified scope.
func (x *Exec) libraryKey(key string) bool {
	first := key
	if i := strings.LastIndex(key, "/"); i >= 0 {
		return true // a full import path: never a scope package's short name
	}
	if i := strings.Index(first, "."); i >= 0 {
		first = first[:i]
	}
	_, in := scopePkgs[first]
	return !in
}

func (x *Exec) callFunction(fr *Frame, st *State, callee *ssa.Function, args []Value, bindings []Value, rt types.Type, pos token.Pos, key string) Value {
	fc := x.C.Funcs[key]
	if fc != nil && !fc.Flags["inline"] {
		return x.applyContract(fr, st, fc, callee, callee.Signature, key, args, rt, pos)
	}
	if x.canInline(callee, fc) {
		return x.inlineCall(fr, st, callee, args, bindings, pos)
	}
	return x.unknownCall(fr, st, key, rt, pos)
}

func (x *Exec) canInline(callee *ssa.Function, fc *FuncContract) bool {
	if len(callee.Blocks) == 0 {
		return false
	}
	for _, s := range x.stack {
		if s == callee {
			return false
		}
	}
	if fc != nil && fc.Flags["inline"] {
		return true
	}
	if callee.Parent() != nil {
		return x.depth < 4 // closures are inlined
	}
	if x.depth >= 3 {
		return false
	}
	// in-scope, small, loop-free
	inScope := false
	if callee.Pkg != nil {
		_, inScope = x.P.Short[callee.Pkg.Pkg.Path()]
	} else if o := callee.Origin(); o != nil && o.Pkg != nil {
		_, inScope = x.P.Short[o.Pkg.Pkg.Path()]
	}
	if !inScope {
		return false
	}
	n := 0
	for _, b := range callee.Blocks {
		n += len(b.Instrs)
		for _, s := range b.Succs {
			if s.Dominates(b) {
				return false
			}
		}
	}
	return n <= 80
}

func (x *Exec) inlineCall(fr *Frame, st *State, callee *ssa.Function, args []Value, bindings []Value, pos token.Pos) Value {
	x.depth++
	x.stack = append(x.stack, callee)
	out, rv := x.execBody(callee, st.clone(), args, bindings, false)
	x.stack = x.stack[:len(x.stack)-1]
	x.depth--
	*st = *out
	return rv
}

func (x *Exec) unknownCall(fr *Frame, st *State, key string, rt types.Type, pos token.Pos) Value {
	x.trusted["unknown callee (no contract; heap havoced, assumed not to panic): "+key] = true
	saved := x.savePrivateBoxes(fr, st)
	x.havocAll(st)
	x.restorePrivateBoxes(st, saved)
	if rt == nil {
		return nil
	}
	return x.havocValue(st, "ret", rt)
}

// buildModSet evaluates modifies clauses in env.
func (x *Exec) buildModSet(env *SpecEnv, clauses []*Clause, allocates bool) *ModSet {
	m := &ModSet{whole: map[string]bool{}, refs: map[string][]Term{}, allocates: allocates}
	for _, c := range clauses {
		if strings.TrimSpace(c.Text) == "*" {
			m.all = true
			continue
		}
		for _, e := range c.Es {
			x.addMod(env, m, e)
		}
	}
	return m
}

func (x *Exec) addMod(env *SpecEnv, m *ModSet, e Expr) {
	switch e := e.(type) {
	case *ESel:
		// Type.field : whole array
		if id, ok := e.X.(*EIdent); ok {
			if _, isVar := env.vars[id.Name]; !isVar && env.pkg != nil {
				if tn, ok := env.pkg.Scope().Lookup(id.Name).(*types.TypeName); ok {
					if strings.HasPrefix(e.Sel, "$") {
						m.whole["G|"+x.P.Short[env.pkg.Path()]+"."+id.Name+"."+e.Sel] = true
					} else {
						m.whole["F|"+typeName(tn.Type())+"|"+e.Sel] = true
					}
					return
				}
			}
		}
		// pkg.Type.field
		if inner, ok := e.X.(*ESel); ok {
			if pid, ok := inner.X.(*EIdent); ok {
				if p := x.findPkg(env, pid.Name); p != nil {
					if tn, ok := p.Scope().Lookup(inner.Sel).(*types.TypeName); ok {
						if strings.HasPrefix(e.Sel, "$") {
							m.whole["G|"+x.P.Short[p.Path()]+"."+inner.Sel+"."+e.Sel] = true
						} else {
							m.whole["F|"+typeName(tn.Type())+"|"+e.Sel] = true
						}
						return
					}
				}
			}
		}
		if strings.HasPrefix(e.Sel, "$") {
			base := x.eval(env, e.X)
			ref := x.flatten(base.V)[0]
			gf := x.ghostFieldDecl(base.T.G, e.Sel)
			k := "G|" + gf.Pkg + "." + gf.Owner + "." + gf.Name
			m.refs[k] = append(m.refs[k], ref)
			return
		}
		pl := x.exprPlace(env, e)
		switch pl.Kind {
		case PField:
			name, _ := fieldPathName(pl.Root, pl.Path)
			k := "F|" + typeName(pl.Root) + "|" + name
			m.refs[k] = append(m.refs[k], pl.Ref)
		case PElem:
			name, _ := fieldPathName(pl.Root, pl.Path)
			k := "E|" + typeName(pl.Root) + "|" + name
			m.refs[k] = append(m.refs[k], pl.Ref)
		case PBox:
			k := "B|" + typeName(pl.Root)
			m.refs[k] = append(m.refs[k], pl.Ref)
		default:
			sfail("modifies item does not denote a heap location")
		}
	case *ECall:
		id, _ := e.Fun.(*EIdent)
		if id != nil && id.Name == "elemsfrom" && len(e.Args) == 2 {
			// elemsfrom(s, k): of the backing array of s only the positions off(s)+k and above
			a := x.eval(env, e.Args[0])
			sl, ok := a.V.(VSlice)
			if !ok {
				sfail("elemsfrom() needs a slice")
			}
			k := x.evalInt(env, e.Args[1])
			et := a.T.G.Underlying().(*types.Slice).Elem()
			key := "E|" + typeName(et)
			m.refs[key] = append(m.refs[key], sl.Arr)
			if m.from == nil {
				m.from = map[string][]fromRef{}
			}
			m.from[key] = append(m.from[key], fromRef{sl.Arr, Add(sl.Off, k)})
			return
		}
		if id == nil || len(e.Args) != 1 {
			sfail("bad modifies item")
		}
		switch id.Name {
		case "heapof":
			// every field (and ghost field) of every type of the named package
			pn, ok := e.Args[0].(*EIdent)
			if !ok {
				sfail("heapof(package)")
			}
			path := pn.Name
			if p := x.findPkg(env, pn.Name); p != nil {
				path = strings.TrimPrefix(p.Path(), mainMod+"/")
			}
			m.whole["F|"+path] = true
			m.whole["F|*"+path] = true
			short := pn.Name
			m.whole["G|"+short] = true
			return
		case "allelems":
			T := x.typeArg(env, e.Args[0])
			m.whole["E|"+typeName(T.G)] = true
			return
		case "allfields":
			// every field (and ghost field) of every object of the given (possibly instantiated generic) struct type
			T := x.typeArg(env, e.Args[0])
			t := T.G
			if p, ok := t.Underlying().(*types.Pointer); ok {
				t = p.Elem()
			}
			m.whole["F|"+typeName(t)] = true
			if n, ok := t.(*types.Named); ok && n.Obj().Pkg() != nil {
				m.whole["G|"+x.P.Short[n.Obj().Pkg().Path()]+"."+n.Obj().Name()] = true
			}
			return
		case "allmaps":
			T := x.typeArg(env, e.Args[0])
			mt := T.G.Underlying().(*types.Map)
			m.whole["M|"+typeName(mt.Key())+">"+typeName(mt.Elem())] = true
			return
		}
		if id.Name == "elemsfrom" {
			sfail("elemsfrom(s, k) takes two arguments")
		}
		a := x.eval(env, e.Args[0])
		switch id.Name {
		case "elems":
			s, ok := a.V.(VSlice)
			if !ok {
				sfail("elems() needs a slice")
			}
			et := a.T.G.Underlying().(*types.Slice).Elem()
			k := "E|" + typeName(et)
			m.refs[k] = append(m.refs[k], s.Arr)
		case "mapof":
			mt, ok := a.T.G.Underlying().(*types.Map)
			if !ok {
				sfail("mapof() needs a map")
			}
			k := "M|" + typeName(mt.Key()) + ">" + typeName(mt.Elem())
			m.refs[k] = append(m.refs[k], a.V.(VScalar).T)
		case "box":
			pt, ok := a.T.G.Underlying().(*types.Pointer)
			if !ok {
				sfail("box() needs a pointer")
			}
			k := "B|" + typeName(pt.Elem())
			m.refs[k] = append(m.refs[k], x.flatten(a.V)[0])
		case "allelems":
			T := x.typeArg(env, e.Args[0])
			m.whole["E|"+typeName(T.G)] = true
		case "allmaps":
			T := x.typeArg(env, e.Args[0])
			mt := T.G.Underlying().(*types.Map)
			m.whole["M|"+typeName(mt.Key())+">"+typeName(mt.Elem())] = true
		case "object":
			// every field of the object
			t := a.T.G
			if iv, isI := a.V.(VIface); isI {
				// an interface value: the object it points to, when its dynamic type is known here (the value was
				// built from a typed pointer in this function); otherwise anything may change
				n, err := strconv.Atoi(iv.Tag.S)
				if err != nil || n < 1 || n > len(x.tagTypes) {
					m.all = true
					return
				}
				pt, ok := x.tagTypes[n-1].Underlying().(*types.Pointer)
				if !ok {
					m.all = true
					return
				}
				if _, isStruct := pt.Elem().Underlying().(*types.Struct); !isStruct {
					k := "B|" + typeName(pt.Elem())
					m.refs[k] = append(m.refs[k], iv.Box)
					return
				}
				k := "F|" + typeName(pt.Elem())
				m.refs[k] = append(m.refs[k], iv.Box)
				return
			}
			if p, ok := t.Underlying().(*types.Pointer); ok {
				t = p.Elem()
			}
			k := "F|" + typeName(t)
			m.refs[k] = append(m.refs[k], x.flatten(a.V)[0])
		default:
			sfail("bad modifies item %s(...)", id.Name)
		}
	case *EIdent:
		if strings.HasPrefix(e.Name, "$") {
			if m.ghosts == nil {
				m.ghosts = map[string]bool{}
			}
			m.ghosts[e.Name] = true
			return
		}
		switch e.Name {
		case "maps":
			m.whole["M"] = true
			return
		case "elems":
			m.whole["E"] = true
			return
		case "boxes":
			m.whole["B"] = true
			return
		case "sends":
			m.whole["C|sendcount"] = true
			m.whole["C|sendlog"] = true
			return
		case "globals":
			m.whole["V"] = true
			return
		}
		// a local variable that lives in a heap box (its address is taken or a closure captures it): that box
		if env.fr != nil {
			if a := x.findLocal(env.fr, env.li, e.Name); a != nil && a.Heap {
				if ref, ok := env.fr.vals[a].(VScalar); ok {
					elem := a.Type().(*types.Pointer).Elem()
					k := "B|" + typeName(elem)
					if _, isStruct := elem.Underlying().(*types.Struct); isStruct {
						k = "F|" + typeName(elem)
					}
					m.refs[k] = append(m.refs[k], ref.T)
					return
				}
			}
		}
		// a bare type name: all fields of all objects of this type
		if env.pkg != nil {
			if tn, ok := env.pkg.Scope().Lookup(e.Name).(*types.TypeName); ok {
				m.whole["F|"+typeName(tn.Type())] = true
				m.whole["G|"+x.P.Short[env.pkg.Path()]+"."+e.Name] = true
				return
			}
		}
		sfail("bad modifies item %s", e.Name)
	default:
		sfail("bad modifies item")
	}
}

// contractEnv binds parameter names of a signature to argument values.
func (x *Exec) contractEnv(st *State, old *State, fc *FuncContract, callee *ssa.Function, sig *types.Signature, args []Value) *SpecEnv {
	env := &SpecEnv{x: x, st: st, old: old, vars: map[string]SVal{}}
	if p := x.typesPkg(fc.Pkg); p != nil {
		env.pkg = p
	} else if callee != nil && callee.Pkg != nil {
		env.pkg = callee.Pkg.Pkg
	}
	i := 0
	if callee != nil && len(callee.Params) > 0 {
		for k, p := range callee.Params {
			if k < len(args) {
				env.vars[p.Name()] = SVal{args[k], goT(p.Type())}
			}
		}
		if len(fc.Params) > 0 {
			for k, n := range fc.Params {
				if k < len(callee.Params) && k < len(args) {
					env.vars[n] = SVal{args[k], goT(callee.Params[k].Type())}
				}
			}
		}
		return env
	}
	if sig.Recv() != nil && len(args) == sig.Params().Len()+1 {
		n := sig.Recv().Name()
		if n == "" || n == "_" {
			n = "recv"
		}
		env.vars[n] = SVal{args[0], goT(sig.Recv().Type())}
		env.vars["recv"] = SVal{args[0], goT(sig.Recv().Type())}
		i = 1
	}
	for k := 0; k < sig.Params().Len() && i+k < len(args); k++ {
		p := sig.Params().At(k)
		n := p.Name()
		if len(fc.Params) > k+i {
			n = fc.Params[k+i]
		} else if len(fc.Params) > 0 && i == 0 && k < len(fc.Params) {
			n = fc.Params[k]
		}
		if n == "" || n == "_" {
			n = fmt.Sprintf("arg%d", k)
		}
		env.vars[n] = SVal{args[i+k], goT(p.Type())}
	}
	if i == 1 && len(fc.Params) > 0 {
		env.vars[fc.Params[0]] = SVal{args[0], goT(sig.Recv().Type())}
	}
	return env
}

func (x *Exec) applyContract(fr *Frame, st *State, fc *FuncContract, callee *ssa.Function, sig *types.Signature, key string, args []Value, rt types.Type, pos token.Pos) Value {
	if fc.Flags["trusted"] || callee == nil || len(callee.Blocks) == 0 {
		x.trusted["trusted contract: "+key] = true
	}
	old := st.clone()
	env := x.contractEnv(st, nil, fc, callee, sig, args)
	callid := x.fresh("callid", SInt)
	// function-level ghost constants of the callee are evaluated in the pre-state
	ghostVals := map[string]SVal{}
	for _, g := range fc.Ghosts {
		v := x.evalClauseValue(env, g, key)
		genv := *env
		ghostVals[g.Name] = SVal{v.V, x.resolveType(&genv, g.T)}
		env.vars[g.Name] = ghostVals[g.Name]
	}
	for _, c := range fc.Requires {
		g := x.safeEvalBool(env, c, key)
		x.check(st, "pre", c.Tags, pos, key+": "+c.Text, g)
	}
	// recursion: the callee's measure must be smaller than the caller's at entry
	if callee != nil && callee == x.fn && fc.Decreases != nil && x.depth == 0 {
		eenv := x.contractEnv(x.entry, nil, fc, callee, sig, fr0params(x))
		var now, before []Term
		for _, e := range fc.Decreases.Es {
			now = append(now, x.evalClauseInt(env, fc.Decreases, e))
			before = append(before, x.evalClauseInt(eenv, fc.Decreases, e))
		}
		x.check(st, "decreases", fc.Decreases.Tags, pos, "recursive call: "+fc.Decreases.Text, lexLess(now, before))
	} else if callee != nil && callee == x.fn && fc.Decreases == nil {
		x.loopsNoMeasure[key+": recursion without decreases"] = true
	}
	if fc.Flags["noreturn"] {
		if cfc := x.C.Funcs[x.P.funcKey(fr.fn)]; cfc != nil && cfc.PanicsWhen != nil && fr.top {
			x.stopCheck(fr, st, cfc, pos, "stop")
		}
		st.pc = False
		if rt == nil {
			return nil
		}
		return x.havocValue(st, "ret", rt)
	}
	mods := x.buildModSet(env, fc.Modifies, fc.Flags["allocates"])
	if mods.allocates && os.Getenv("GOVC_NO_ALLOCINFO") == "" {
		switch {
		case callee != nil:
			mods.alloc = x.P.allocSetOf(callee)
		case fc.Flags["trusted"] && !fc.Flags["functype"] && !strings.Contains(key, "$") && x.libraryKey(key):
			mods.alloc = allocLib
		}
	}
	var savedBoxes []savedBox
	if mods.all || mods.whole["B"] {
		savedBoxes = x.savePrivateBoxes(fr, st)
	}
	x.frameEpoch(st, mods)
	x.restorePrivateBoxes(st, savedBoxes)
	for _, g := range sortedStrings(mods.ghosts) {
		assigned := false
		for _, c := range fc.Exits {
			if c.LHS == nil && c.Name == g {
				assigned = true // the exit clause defines the new value from the old one
			}
		}
		if v, ok := st.ghost[g]; ok && !assigned {
			st.ghost[g] = x.havocShape(g, v)
		}
	}
	var rv Value
	penv := x.contractEnv(st, old, fc, callee, sig, args)
	if rt != nil {
		rv = x.havocValue(st, "ret."+shortKey(key), rt)
		penv.vars["result"] = SVal{rv, goT(rt)}
	}
	penv.vars["callid"] = SVal{VScalar{callid}, intT}
	for n, v := range ghostVals {
		penv.vars[n] = v
	}
	// ghost effects of trusted primitives
	x.contractGhostEffects(st, penv, fc)
	for _, c := range fc.Ensures {
		g := x.safeEvalBool(penv, c, key)
		x.assume(Implies(st.pc, g))
	}
	for _, c := range fc.FreeEns {
		g := x.safeEvalBool(penv, c, key)
		x.assume(Implies(st.pc, g))
		x.trusted["free ensures of "+key+" (assumed, not checked against its body): "+c.Text] = true
	}
	return rv
}

func shortKey(k string) string {
	if i := strings.LastIndex(k, "."); i >= 0 {
		return k[i+1:]
	}
	return k
}

// contractGhostEffects applies "exit" ghost assignments of a callee contract at the call site.
func (x *Exec) contractGhostEffects(st *State, env *SpecEnv, fc *FuncContract) {
	for _, c := range fc.Exits {
		x.ghostAssign(st, env, c)
	}
}

// ghostAssign executes "name := e" where name is a ghost variable ($x / g.x) or "owner.$field".
func (x *Exec) ghostAssign(st *State, env *SpecEnv, c *Clause) {
	v := x.eval(env, c.E)
	name := c.Name
	if c.LHS != nil {
		sel := c.LHS.(*ESel)
		owner := x.eval(env, sel.X)
		x.setGhostField(st, env, owner, sel.Sel, v.V)
		return
	}
	switch {
	case name == "held" || name == "now":
		st.ghost[name] = v.V
	case strings.HasPrefix(name, "$"):
		st.ghost[name] = v.V
		ghostTypes[x.key+"/"+name] = v.T
	default:
		st.ghost["g."+name] = v.V
		ghostTypes[x.key+"/g."+name] = v.T
	}
}

func (x *Exec) safeEvalBool(env *SpecEnv, c *Clause, key string) (t Term) {
	defer func() {
		if r := recover(); r != nil {
			if se, ok := r.(specErr); ok {
				panic(fmt.Errorf("contract error in %s (line %d: %s): %s", key, c.Line, c.Text, se.msg))
			}
			panic(r)
		}
	}()
	return x.evalBool(env, c.E)
}

// ---------------------------------------------------------------------------
// builtins

func (x *Exec) execBuiltin(fr *Frame, st *State, b *ssa.Builtin, cc *ssa.CallCommon, site ssa.Value, pos token.Pos) Value {
	arg := func(i int) Value { return x.get(fr, cc.Args[i]) }
	switch b.Name() {
	case "len":
		switch v := arg(0).(type) {
		case VStr:
			return VScalar{v.Len}
		case VSlice:
			return VScalar{v.Len}
		case VArr:
			return VScalar{IntLit(v.N)}
		case VScalar:
			switch cc.Args[0].Type().Underlying().(type) {
			case *types.Map:
				x.guardCheck(st, x.mapGuardT(st, v.T, cc.Args[0].Type()), false, pos, "len of the map")
				return VScalar{x.mapLen(st, cc.Args[0].Type(), v.T)}
			case *types.Chan:
				r := x.fresh("chanlen", SInt)
				x.assume(Ge(r, IntLit(0)))
				return VScalar{r}
			case *types.Pointer:
				at := cc.Args[0].Type().Underlying().(*types.Pointer).Elem().Underlying().(*types.Array)
				return VScalar{IntLit(at.Len())}
			}
		case VPtr:
			if pt, ok := cc.Args[0].Type().Underlying().(*types.Pointer); ok {
				at := pt.Elem().Underlying().(*types.Array)
				return VScalar{IntLit(at.Len())}
			}
		}
		panic(unsupported("len of " + cc.Args[0].Type().String()))
	case "cap":
		switch v := arg(0).(type) {
		case VSlice:
			return VScalar{v.Cap}
		case VArr:
			return VScalar{IntLit(v.N)}
		}
		r := x.fresh("cap", SInt)
		x.assume(Ge(r, IntLit(0)))
		return VScalar{r}
	case "append":
		return x.execAppend(fr, st, cc, pos)
	case "copy":
		return x.execCopy(fr, st, cc, pos)
	case "delete":
		m := arg(0).(VScalar).T
		x.guardCheck(st, x.mapGuardT(st, m, cc.Args[0].Type()), true, pos, "delete from the map")
		x.mapDelete(st, cc.Args[0].Type(), m, x.keyTerm(arg(1)))
		return nil
	case "close":
		ch := arg(0).(VScalar).T
		x.panicCheck(st, "nil", pos, Not(Eq(ch, IntLit(0))))
		x.trusted["close(ch): channel assumed not already closed"] = true
		return nil
	case "panic":
		x.explicitPanic(fr, st, pos, "panic")
		return nil
	case "print", "println":
		return nil
	case "recover":
		return VIface{IntLit(0), IntLit(0)}
	case "min", "max":
		a := arg(0).(VScalar).T
		for i := 1; i < len(cc.Args); i++ {
			c := arg(i).(VScalar).T
			if b.Name() == "min" {
				a = Ite(Le(a, c), a, c)
			} else {
				a = Ite(Ge(a, c), a, c)
			}
		}
		return VScalar{x.define(b.Name(), a)}
	case "ssa:wrapnilchk":
		v := arg(0)
		r := x.flatten(v)[0]
		x.panicCheck(st, "nil", pos, Not(Eq(r, IntLit(0))))
		return v
	case "ssa:deferstack":
		return VScalar{IntLit(0)}
	}
	panic(unsupported("builtin " + b.Name()))
}

// elemArrays gives the heap arrays of a slice element type.
func elemArrayNames(et types.Type) (names []string, leaves []Leaf) {
	for _, l := range leavesOf(et) {
		names = append(names, "E|"+typeName(et)+"|"+l.Name)
		leaves = append(leaves, l)
	}
	return
}

func (x *Exec) execAppend(fr *Frame, st *State, cc *ssa.CallCommon, pos token.Pos) Value {
	s := x.get(fr, cc.Args[0]).(VSlice)
	et := cc.Args[0].Type().Underlying().(*types.Slice).Elem()
	var tLen Term
	var srcElem func(leaf int, k Term) Term // k-th appended element, leaf
	names, leaves := elemArrayNames(et)
	switch t := x.get(fr, cc.Args[1]).(type) {
	case VSlice:
		tLen = t.Len
		pre := make([]Term, len(names))
		for i, n := range names {
			pre[i] = Select(x.heapGet(st, n, ArrSort(SInt, ArrSort(SInt, leaves[i].Sort))), t.Arr)
		}
		srcElem = func(leaf int, k Term) Term { return Select(pre[leaf], At(t.Off, k)) }
	case VStr:
		tLen = t.Len
		srcElem = func(leaf int, k Term) Term { return x.sat(t.Base, At(t.Off, k)) }
	default:
		panic(unsupported("append argument"))
	}
	n := x.define("applen", Add(s.Len, tLen))
	fits := x.define("fits", Le(n, s.Cap))
	r := x.alloc(st, "app")
	rarr := x.define("apparr", Ite(fits, s.Arr, r))
	roff := x.define("appoff", Ite(fits, s.Off, IntLit(0)))
	ncap := x.fresh("appcap", SInt)
	x.assume(And(Ge(ncap, n), Implies(fits, Eq(ncap, s.Cap))))
	for i, nm := range names {
		srt := ArrSort(SInt, ArrSort(SInt, leaves[i].Sort))
		E := x.heapGet(st, nm, srt)
		oldArr := Select(E, s.Arr)
		na := x.fresh("appdata", ArrSort(SInt, leaves[i].Sort))
		k := Term{"k", SInt}
		// prefix copied (absolute index k over the new array)
		x.assume(Term{fmt.Sprintf("(forall ((k Int)) (! (=> (and (<= %s k) (< k (+ %s %s))) (= (select %s k) (select %s (+ %s (- k %s))))) :pattern ((select %s k))))",
			roff.S, roff.S, s.Len.S, na.S, oldArr.S, s.Off.S, roff.S, na.S), SBool})
		// the same fact, found from a read of the old array (an `exists` hypothesis about the old slice has to
		// reach a goal about the new one)
		x.assume(Term{fmt.Sprintf("(forall ((k Int)) (! (=> (and (<= %s k) (< k (+ %s %s))) (= (select %s (+ %s (- k %s))) (select %s k))) :pattern ((select %s k))))",
			s.Off.S, s.Off.S, s.Len.S, na.S, roff.S, s.Off.S, oldArr.S, oldArr.S), SBool})
		// appended elements
		rel := Sub(k, Add(roff, s.Len)) // position within the appended part
		x.assume(Term{fmt.Sprintf("(forall ((k Int)) (! (=> (and (<= (+ %s %s) k) (< k (+ %s %s))) (= (select %s k) %s)) :pattern ((select %s k))))",
			roff.S, s.Len.S, roff.S, n.S, na.S, srcElem(i, rel).S, na.S), SBool})
		// the element just appended, stated without a quantifier for the common one-element append
		x.assume(Implies(Gt(tLen, IntLit(0)), Eq(Select(na, At(roff, s.Len)), srcElem(i, IntLit(0)))))
		// in place: everything outside the appended window is unchanged
		x.assume(Implies(fits, Term{fmt.Sprintf("(forall ((k Int)) (! (=> (or (< k (+ %s %s)) (>= k (+ %s %s))) (= (select %s k) (select %s k))) :pattern ((select %s k))))",
			s.Off.S, s.Len.S, s.Off.S, n.S, na.S, oldArr.S, na.S), SBool}))
		x.heapSet(st, nm, x.define("h", Store(E, rarr, na)))
	}
	return VSlice{rarr, roff, n, ncap}
}

func (x *Exec) execCopy(fr *Frame, st *State, cc *ssa.CallCommon, pos token.Pos) Value {
	d := x.get(fr, cc.Args[0]).(VSlice)
	et := cc.Args[0].Type().Underlying().(*types.Slice).Elem()
	names, leaves := elemArrayNames(et)
	var sLen Term
	var srcElem func(leaf int, k Term) Term
	switch t := x.get(fr, cc.Args[1]).(type) {
	case VSlice:
		sLen = t.Len
		pre := make([]Term, len(names))
		for i, n := range names {
			pre[i] = Select(x.heapGet(st, n, ArrSort(SInt, ArrSort(SInt, leaves[i].Sort))), t.Arr)
		}
		srcElem = func(leaf int, k Term) Term { return Select(pre[leaf], At(t.Off, k)) }
	case VStr:
		sLen = t.Len
		srcElem = func(leaf int, k Term) Term { return x.sat(t.Base, At(t.Off, k)) }
	default:
		panic(unsupported("copy argument"))
	}
	n := x.define("copyn", Ite(Le(d.Len, sLen), d.Len, sLen))
	for i, nm := range names {
		srt := ArrSort(SInt, ArrSort(SInt, leaves[i].Sort))
		E := x.heapGet(st, nm, srt)
		oldArr := Select(E, d.Arr)
		na := x.fresh("copydata", ArrSort(SInt, leaves[i].Sort))
		k := Term{"k", SInt}
		x.assume(Term{fmt.Sprintf("(forall ((k Int)) (! (=> (and (<= %s k) (< k (+ %s %s))) (= (select %s k) %s)) :pattern ((select %s k))))",
			d.Off.S, d.Off.S, n.S, na.S, srcElem(i, Sub(k, d.Off)).S, na.S), SBool})
		x.assume(Term{fmt.Sprintf("(forall ((k Int)) (! (=> (or (< k %s) (>= k (+ %s %s))) (= (select %s k) (select %s k))) :pattern ((select %s k))))",
			d.Off.S, d.Off.S, n.S, na.S, oldArr.S, na.S), SBool})
		x.heapSet(st, nm, x.define("h", Store(E, d.Arr, na)))
	}
	return VScalar{n}
}

// ---------------------------------------------------------------------------
// defer / go

type deferRec struct {
	ins *ssa.Defer
}

func deferKey(d *ssa.Defer) string {
	return fmt.Sprintf("defer.%d.%d", d.Block().Index, indexInBlock(d))
}

func indexInBlock(i ssa.Instruction) int {
	for k, ins := range i.Block().Instrs {
		if ins == i {
			return k
		}
	}
	return -1
}

type deferredCall struct {
	args []Value
	fval Value
}

func (x *Exec) execDefer(fr *Frame, st *State, ins *ssa.Defer) {
	for _, b := range ins.Block().Succs {
		_ = b
	}
	if x.inLoop(fr, ins.Block()) {
		panic(unsupported("defer inside a loop"))
	}
	k := deferKey(ins)
	st.ghost[k+".flag"] = VScalar{True}
	cc := &ins.Call
	if cc.IsInvoke() {
		st.ghost[k+".recv"] = x.get(fr, cc.Value)
	} else if _, isB := cc.Value.(*ssa.Builtin); !isB {
		if _, isF := cc.Value.(*ssa.Function); !isF {
			st.ghost[k+".fn"] = x.get(fr, cc.Value)
		}
	}
	for i, a := range cc.Args {
		st.ghost[fmt.Sprintf("%s.arg%d", k, i)] = x.get(fr, a)
	}
	fr.defers = append(fr.defers, ins)
}

func (x *Exec) inLoop(fr *Frame, b *ssa.BasicBlock) bool {
	for _, li := range fr.loops {
		if li.body[b] {
			return true
		}
	}
	return false
}

func (x *Exec) execRunDefers(fr *Frame, st *State, ins *ssa.RunDefers) {
	// all static defer sites of this function, in reverse block/instruction order
	var sites []*ssa.Defer
	for _, b := range fr.fn.Blocks {
		for _, i := range b.Instrs {
			if d, ok := i.(*ssa.Defer); ok {
				sites = append(sites, d)
			}
		}
	}
	sort.Slice(sites, func(i, j int) bool {
		if sites[i].Block().Index != sites[j].Block().Index {
			return sites[i].Block().Index > sites[j].Block().Index
		}
		return indexInBlock(sites[i]) > indexInBlock(sites[j])
	})
	for _, d := range sites {
		k := deferKey(d)
		fv, ok := st.ghost[k+".flag"]
		if !ok {
			continue
		}
		flag := fv.(VScalar).T
		if flag.S == "false" {
			continue
		}
		run := func(s *State) {
			// rebuild a pseudo frame binding the call operands to the saved values
			pf := &Frame{fn: fr.fn, vals: map[ssa.Value]Value{}, loops: fr.loops, incoming: fr.incoming, defers: fr.defers}
			for v, val := range fr.vals {
				pf.vals[v] = val
			}
			cc := d.Call
			if cc.IsInvoke() {
				pf.vals[cc.Value] = s.ghost[k+".recv"]
			} else if v, ok := s.ghost[k+".fn"]; ok {
				pf.vals[cc.Value] = v
			}
			for i, a := range cc.Args {
				if _, isConst := a.(*ssa.Const); isConst {
					continue
				}
				if _, isFn := a.(*ssa.Function); isFn {
					continue
				}
				pf.vals[a] = s.ghost[fmt.Sprintf("%s.arg%d", k, i)]
			}
			x.execCall(pf, s, &cc, nil, d.Pos())
		}
		if flag.S == "true" {
			run(st)
			continue
		}
		yes := st.clone()
		yes.pc = x.andPC(st.pc, flag)
		run(yes)
		no := st.clone()
		no.pc = x.andPC(st.pc, Not(flag))
		var ins []edgeIn
		if yes.pc.S != "false" {
			ins = append(ins, edgeIn{yes, nil})
		}
		ins = append(ins, edgeIn{no, nil})
		merged := x.mergeStates(ins)
		*st = *merged
	}
}

func (x *Exec) execGo(fr *Frame, st *State, ins *ssa.Go) {
	// the spawned function runs on its own goroutine: verified separately, skipped here
	for _, a := range ins.Call.Args {
		x.get(fr, a)
	}
	x.trusted["go statement: spawned goroutine not followed (sequential semantics per goroutine)"] = true
	// ownership of captured variables: a variable captured by the spawned closure must not be assigned by the
	// spawning function afterwards (the goroutine would see the later value - the shared loop variable of Go
	// before 1.22 - or race with the assignment). A re-executed declaration makes a new variable and is fine.
	if mc, ok := ins.Call.Value.(*ssa.MakeClosure); ok && x.discovering == 0 {
		for _, b := range mc.Bindings {
			a, ok := b.(*ssa.Alloc)
			if !ok {
				continue
			}
			if st2 := storeAfter(ins, a); st2 != nil {
				x.check(st, "spawn-capture", []string{"C05"}, ins.Pos(), cellHint(a)+": captured by a spawned goroutine and assigned again afterwards", False)
			}
		}
	}
}

// storeAfter reports a store to the variable a that can execute after instruction from without a's declaration
// being executed again in between.
func storeAfter(from ssa.Instruction, a *ssa.Alloc) *ssa.Store {
	blk := from.Block()
	scan := func(instrs []ssa.Instruction) (*ssa.Store, bool) {
		for _, in := range instrs {
			if in == ssa.Instruction(a) {
				return nil, true // a new variable from here on
			}
			if s, ok := in.(*ssa.Store); ok && s.Addr == ssa.Value(a) {
				return s, true
			}
		}
		return nil, false
	}
	idx := 0
	for i, in := range blk.Instrs {
		if in == from {
			idx = i + 1
		}
	}
	if s, stop := scan(blk.Instrs[idx:]); stop {
		return s
	}
	seen := map[*ssa.BasicBlock]bool{}
	work := append([]*ssa.BasicBlock{}, blk.Succs...)
	for len(work) > 0 {
		b := work[0]
		work = work[1:]
		if seen[b] {
			continue
		}
		seen[b] = true
		if s, stop := scan(b.Instrs); stop {
			if s != nil {
				return s
			}
			continue
		}
		work = append(work, b.Succs...)
	}
	return nil
}

func fr0params(x *Exec) []Value {
	if len(x.auxFrames) > 0 {
		return x.auxFrames[0].params
	}
	return nil
}

// exprPlace resolves a field selection in a contract to the heap location it denotes.
func (x *Exec) exprPlace(env *SpecEnv, e Expr) *Place {
	sel, ok := e.(*ESel)
	if !ok {
		sfail("expected a field selection")
	}
	// base is itself a struct-valued field: recurse
	if inner, ok := sel.X.(*ESel); ok {
		bt := x.eval(env, inner)
		if bt.T != nil && bt.T.G != nil {
			if _, isStruct := bt.T.G.Underlying().(*types.Struct); isStruct {
				p := x.exprPlace(env, inner)
				st := p.Typ.Underlying().(*types.Struct)
				path, _ := findField(st, sel.Sel)
				if path == nil {
					sfail("no field %s", sel.Sel)
				}
				for _, i := range path {
					p = x.subPlace(p, i)
				}
				return p
			}
		}
	}
	base := x.eval(env, sel.X)
	pt, ok := base.T.G.Underlying().(*types.Pointer)
	if !ok {
		sfail("field selection on a non-pointer in a modifies item")
	}
	st, ok := pt.Elem().Underlying().(*types.Struct)
	if !ok {
		sfail("field selection on a pointer to a non-struct")
	}
	path, _ := findField(st, sel.Sel)
	if path == nil {
		sfail("no field %s in %s", sel.Sel, pt.Elem())
	}
	p := x.ptrPlace(base.V, pt.Elem())
	for _, i := range path {
		p = x.subPlace(p, i)
	}
	return p
}

// private boxes: escaping locals of the current function whose address is only captured by closures that
// this function itself defers or spawns. No callee can reach them, so a callee's havoc does not affect them.
type savedBox struct {
	name string
	ref  Term
	val  Term
}

func privateBox(a *ssa.Alloc) bool {
	if !a.Heap {
		return false
	}
	for _, r := range *a.Referrers() {
		switch r := r.(type) {
		case *ssa.Store:
			if r.Addr != a {
				return false // the address itself is stored somewhere
			}
		case *ssa.UnOp, *ssa.DebugRef:
		case *ssa.MakeClosure:
			for _, cr := range *r.Referrers() {
				switch cr.(type) {
				case *ssa.Defer, *ssa.Go, *ssa.DebugRef:
				default:
					return false
				}
			}
		default:
			return false
		}
	}
	return true
}

func (x *Exec) savePrivateBoxes(fr *Frame, st *State) []savedBox {
	var out []savedBox
	if fr == nil {
		return nil
	}
	for _, b := range fr.fn.Blocks {
		for _, ins := range b.Instrs {
			a, ok := ins.(*ssa.Alloc)
			if !ok || !privateBox(a) {
				continue
			}
			v, bound := fr.vals[a]
			if !bound {
				continue
			}
			ref, isRef := v.(VScalar)
			if !isRef {
				continue
			}
			elem := a.Type().(*types.Pointer).Elem()
			if _, isStruct := elem.Underlying().(*types.Struct); isStruct {
				continue
			}
			for _, l := range leavesOf(elem) {
				name := "B|" + typeName(elem) + "|" + l.Name
				arr := x.heapGet(st, name, ArrSort(SInt, l.Sort))
				out = append(out, savedBox{name, ref.T, x.define("boxval", Select(arr, ref.T))})
			}
		}
	}
	return out
}

func (x *Exec) restorePrivateBoxes(st *State, saved []savedBox) {
	for _, s := range saved {
		arr := x.heapGet(st, s.name, ArrSort(SInt, s.val.Sort))
		x.heapSet(st, s.name, x.define("h", Store(arr, s.ref, s.val)))
	}
}
