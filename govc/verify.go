package main

// Verifying one function: entry state, contract, SMT emission, discharge.

import (
	"os/exec"
	"context"
	"bytes"
	"golang.org/x/tools/go/ssa/ssautil"
	"fmt"
	"go/types"
	"os"
	"runtime"
	"path/filepath"
	"sort"
	"strings"
	"sync"
	"time"

	"golang.org/x/tools/go/ssa"
)

const prelude = `(set-option :produce-models true)
(set-logic ALL)
(declare-sort Str 0)
(declare-sort F64 0)
(declare-fun slen (Str) Int)
(declare-fun sat (Str Int) Int)
(declare-fun ssub (Str Int Int) Str)
(declare-fun sconcat (Str Str) Str)
(declare-fun ofbytes ((Array Int Int) Int Int) Str)
(declare-fun ofrune (Int) Str)
(declare-fun tolower (Str) Str)
(declare-fun slt (Str Str) Bool)
(declare-fun f64.add (F64 F64) F64)
(declare-fun f64.sub (F64 F64) F64)
(declare-fun f64.mul (F64 F64) F64)
(declare-fun f64.div (F64 F64) F64)
(declare-fun f64.neg (F64) F64)
(declare-fun f64.lt (F64 F64) Bool)
(declare-fun f64.le (F64 F64) Bool)
(declare-fun f64.eq (F64 F64) Bool)
(declare-fun f64.ofint (Int) F64)
(declare-fun f64.toint (F64) Int)
(declare-fun f64.isnan (F64) Bool)
(assert (forall ((s Str)) (! (and (>= (slen s) 0) (<= (slen s) 2147483648)) :pattern ((slen s)))))
(assert (forall ((s Str) (i Int)) (! (and (<= 0 (sat s i)) (<= (sat s i) 255)) :pattern ((sat s i)))))
(assert (forall ((s Str) (i Int) (j Int)) (! (=> (and (<= 0 i) (<= i j) (<= j (slen s))) (= (slen (ssub s i j)) (- j i))) :pattern ((ssub s i j)))))
(assert (forall ((s Str) (i Int) (j Int) (k Int)) (! (=> (and (<= 0 i) (<= i j) (<= j (slen s)) (<= 0 k) (< k (- j i))) (= (sat (ssub s i j) k) (sat s (+ i k)))) :pattern ((sat (ssub s i j) k)))))
(assert (forall ((s Str)) (! (= (ssub s 0 (slen s)) s) :pattern ((ssub s 0 (slen s))))))
(assert (forall ((a Str) (b Str)) (! (= (slen (sconcat a b)) (+ (slen a) (slen b))) :pattern ((sconcat a b)))))
(assert (forall ((a Str) (b Str) (k Int)) (! (= (sat (sconcat a b) k) (ite (< k (slen a)) (sat a k) (sat b (- k (slen a))))) :pattern ((sat (sconcat a b) k)))))
(assert (forall ((a Str) (b Str)) (! (and (=> (= (slen a) 0) (= (sconcat a b) b)) (=> (= (slen b) 0) (= (sconcat a b) a))) :pattern ((sconcat a b)))))
(assert (forall ((a (Array Int Int)) (o Int) (l Int)) (! (=> (>= l 0) (= (slen (ofbytes a o l)) l)) :pattern ((ofbytes a o l)))))
(assert (forall ((a (Array Int Int)) (o Int) (l Int) (k Int)) (! (=> (and (<= 0 k) (< k l) (<= 0 (select a (+ o k))) (<= (select a (+ o k)) 255)) (= (sat (ofbytes a o l) k) (select a (+ o k)))) :pattern ((sat (ofbytes a o l) k)))))
(assert (forall ((s Str)) (! (= (slen (tolower s)) (slen s)) :pattern ((tolower s)))))
`

type FuncResult struct {
	Key         string
	Obls        []*Obligation
	OutOfSubset string
	Notes       []string
	Trusted     []string
	Seconds     float64
	NoMeasure   []string
	Error       string
	exec        *Exec
}

type VerifyOpts struct {
	TimeoutS int
	Seed     int
	Thorough bool
	Solvers  []string
	Keep     bool // keep SMT files of failed obligations
	NoPanic  bool
}

// buildVC symbolically executes fn and returns its obligations.
func buildVC(P *Program, C *Contracts, fn *ssa.Function, noPanic bool) (res *FuncResult) {
	x := newExec(P, C, fn)
	x.opts.NoPanicObls = noPanic
	x.loopsNoMeasure = map[string]bool{}
	res = &FuncResult{Key: x.key, exec: x}
	defer func() {
		if r := recover(); r != nil {
			switch e := r.(type) {
			case unsupportedErr:
				res.OutOfSubset = e.msg
			case error:
				if u, ok := e.(unsupportedErr); ok {
					res.OutOfSubset = u.msg
				} else {
					res.Error = e.Error()
					if _, isRT := e.(runtime.Error); isRT && os.Getenv("GOVC_DEBUG") != "" {
						panic(r)
					}
				}
			default:
				res.Error = fmt.Sprintf("%v", r)
				if os.Getenv("GOVC_DEBUG") != "" {
					panic(r)
				}
			}
			res.Obls = x.obls
			res.Notes = x.notes
		}
	}()
	x.run()
	res.Obls = x.obls
	res.Notes = x.notes
	for k := range x.trusted {
		res.Trusted = append(res.Trusted, k)
	}
	sort.Strings(res.Trusted)
	for k := range x.loopsNoMeasure {
		res.NoMeasure = append(res.NoMeasure, k)
	}
	sort.Strings(res.NoMeasure)
	return res
}

func (x *Exec) pkgOf(fn *ssa.Function) *types.Package {
	if fn.Pkg != nil {
		return fn.Pkg.Pkg
	}
	if o := fn.Origin(); o != nil && o.Pkg != nil {
		return o.Pkg.Pkg
	}
	if fn.Parent() != nil {
		return x.pkgOf(fn.Parent())
	}
	return nil
}

func (x *Exec) run() {
	fn := x.fn
	if x.fc != nil && x.fc.Flags["bitvector"] {
		x.bv = true
	}
	st := &State{pc: True, cells: map[*ssa.Alloc]Value{}, heap: map[string]Term{}, ghost: map[string]Value{}}
	st.epoch = x.newEpoch(0)
	st.wm = x.declare("wm0", SInt)
	x.assume(Ge(st.wm, IntLit(0)))
	var args []Value
	for _, p := range fn.Params {
		args = append(args, x.havocValue(st, "in."+p.Name(), p.Type()))
	}
	var binds []Value
	for _, fv := range fn.FreeVars {
		binds = append(binds, x.havocValue(st, "fv."+fv.Name(), fv.Type()))
	}
	st.ghost["held"] = VSet{x.emptySetTerm(SInt)}
	{
		var names []string
		for g := range x.C.GhostVars {
			names = append(names, g)
		}
		sort.Strings(names)
		for _, g := range names {
			T := x.ghostType(g)
			ls := leavesOfS(T)
			ts := make([]Term, len(ls))
			for i, l := range ls {
				ts[i] = x.fresh("in."+g+l.Name, l.Sort)
			}
			st.ghost[g] = x.unflattenS(T, ts)
			if x.C.GhostVarAlloc[g] && T.Math == "set" {
				x.assume(Term{fmt.Sprintf("(forall ((r Int)) (! (=> (select %s r) (<= r wm0)) :pattern ((select %s r))))", ts[0].S, ts[0].S), SBool})
			}
		}
	}
	entry := st.clone()
	x.entry = entry
	env := &SpecEnv{x: x, st: st, vars: map[string]SVal{}, pkg: x.pkgOf(fn)}
	for i, p := range fn.Params {
		env.vars[p.Name()] = SVal{args[i], goT(p.Type())}
	}
	// a closure verified on its own (goroutine bodies): captured variables are named in its contract by
	// their entry values
	fvVals := map[string]SVal{}
	for i, fv := range fn.FreeVars {
		elem := fv.Type().Underlying().(*types.Pointer).Elem()
		pl := x.ptrPlace(binds[i], elem)
		if pl.Ref.S != "" {
			x.assume(Not(Eq(pl.Ref, IntLit(0))))
		}
		fvVals[fv.Name()] = SVal{x.loadPlace(st, pl), goT(elem)}
		env.vars[fv.Name()] = fvVals[fv.Name()]
	}
	if x.fc != nil {
		for _, g := range x.fc.Ghosts {
			v := x.evalClauseValue(env, g, x.key)
			st.ghost["g."+g.Name] = v.V
			ghostTypes[x.key+"/g."+g.Name] = x.resolveType(env, g.T)
		}
		for _, c := range x.fc.Requires {
			g := x.safeEvalBool(env, c, x.key)
			st.pc = x.andPC(st.pc, g)
		}
		for _, c := range x.fc.PrivReq {
			g := x.safeEvalBool(env, c, x.key)
			st.pc = x.andPC(st.pc, g)
		}
	}
	if pk := x.pkgOf(fn); pk != nil {
		for _, c := range x.C.GlobalInvs[pk.Name()] {
			if viol := x.globalInvStores(pk, c); viol != "" {
				sfail("globalinv %q: %s", c.Text, viol)
			}
			g := x.safeEvalBool(env, c, x.key)
			st.pc = x.andPC(st.pc, g)
			x.trusted["globalinv of package "+pk.Name()+" (holds after package initialisation; no function in scope assigns the variables it names - scanned; mutation of slice contents through an alias is not tracked): "+c.Text] = true
		}
	}
	// vacuity guard: the precondition must be satisfiable
	x.obls = append(x.obls, &Obligation{Name: x.key + "/cover[requires]#1", Kind: "cover", Func: x.key, Text: "requires satisfiable", PC: st.pc, Goal: False, NDecls: len(x.decls), NAssert: len(x.asserts)})
	entrySt := st.clone()
	out, rv := x.execBody(fn, st, args, binds, true)
	x.lastResult = rv
	if x.fc != nil && out.pc.S != "false" {
		penv := &SpecEnv{x: x, st: out, old: entrySt, vars: map[string]SVal{}, pkg: x.pkgOf(fn)}
		for i, p := range fn.Params {
			penv.vars[p.Name()] = SVal{args[i], goT(p.Type())}
		}
		if rv != nil {
			penv.vars["result"] = SVal{rv, goT(resultType(fn))}
		}
		for k, v := range fvVals {
			penv.vars[k] = v
		}
		// a captured variable named in a postcondition denotes its value at the exit (the closure may have assigned
		// it); for captured variables the closure does not assign that is the entry value
		for i, fv := range fn.FreeVars {
			elem := fv.Type().Underlying().(*types.Pointer).Elem()
			pl := x.ptrPlace(binds[i], elem)
			func() {
				defer func() { recover() }()
				penv.vars[fv.Name()] = SVal{x.loadPlace(out, pl), goT(elem)}
			}()
		}
		for _, c := range x.fc.Exits {
			x.ghostAssign(out, penv, c)
		}
		for _, c := range x.fc.PrivEns {
			g := x.safeEvalBool(penv, c, x.key)
			x.check(out, "post", c.Tags, fn.Pos(), "private: "+c.Text, g)
		}
		for _, c := range x.fc.Ensures {
			g := x.safeEvalBool(penv, c, x.key)
			x.check(out, "post", c.Tags, fn.Pos(), c.Text, g)
		}
		x.frameObligations(out, entrySt, penv)
	}
	// vacuity guard: the exit must be reachable under all the assumptions made on the way
	if out.pc.S != "false" && !(x.fc != nil && x.fc.Flags["noreturn"]) {
		x.obls = append(x.obls, &Obligation{Name: x.key + "/cover[exit]#1", Kind: "cover", Func: x.key, Text: "exit reachable (assumptions consistent)", PC: out.pc, Goal: False, NDecls: len(x.decls), NAssert: len(x.asserts)})
	}
	if x.fc != nil {
		for _, lc := range x.fc.Loops {
			if !lc.used {
				panic(fmt.Errorf("contract of %s: loop %q matches no loop in the function", x.key, lc.Key))
			}
		}
	}
	// spec lemmas whose functions are in use
	x.lemmaAxioms(entry, x.pkgOf(fn))
}

// frameObligations: every heap array written by the body must be covered by the modifies clause.
func (x *Exec) frameObligations(out, entry *State, penv *SpecEnv) {
	if x.fc == nil || (len(x.fc.Modifies) == 0 && !x.fc.Flags["pure"] && !x.fc.Flags["framed"]) {
		return
	}
	// ghost variables
	{
		eenv0 := *penv
		eenv0.st = entry
		eenv0.old = nil
		gm := x.buildModSet(&eenv0, x.fc.Modifies, false)
		var names []string
		for g := range x.C.GhostVars {
			names = append(names, g)
		}
		sort.Strings(names)
		for _, g := range names {
			if gm.ghosts[g] || gm.all {
				continue
			}
			exitAssigned := false
			for _, c := range x.fc.Exits {
				if c.LHS == nil && c.Name == g {
					exitAssigned = true
				}
			}
			if exitAssigned {
				continue
			}
			a, b := out.ghost[g], entry.ghost[g]
			if a == nil || b == nil || sameValue(a, b) {
				continue
			}
			ta, tb := x.flatten(a), x.flatten(b)
			var eqs []Term
			for i := range ta {
				eqs = append(eqs, Eq(ta[i], tb[i]))
			}
			x.check(out, "frame", nil, x.fn.Pos(), "ghost "+g+" unchanged", And(eqs...))
		}
	}
	log := newWriteLog()
	x.collectHeapWrites(out, entry.epoch, log)
	// explicit writes directly in entry epoch
	eenv := *penv
	eenv.st = entry
	eenv.old = nil
	mods := x.buildModSet(&eenv, x.fc.Modifies, x.fc.Flags["allocates"])
	if mods.all {
		return
	}
	if log.all {
		x.check(out, "frame", nil, x.fn.Pos(), "callee with unknown effects called; modifies must be *", False)
		return
	}
	var names []string
	for k := range log.heap {
		names = append(names, k)
	}
	sort.Strings(names)
	for _, prefix := range names {
		// find the concrete array names (with leaf) that exist under this prefix
		for _, name := range x.sortedHeapNames() {
			sort_ := x.heapSorts[name]
			if !(name == prefix || strings.HasPrefix(name, prefix+".") || strings.HasPrefix(name, prefix+"|") || strings.HasPrefix(name, prefix)) {
				continue
			}
			whole, refs, _ := mods.lookup(name)
			if whole {
				continue
			}
			after := x.heapGet(out, name, sort_)
			before := x.heapGet(entry, name, sort_)
			if after.S == before.S {
				continue
			}
			if !strings.HasPrefix(string(sort_), "(Array Int ") {
				x.check(out, "frame", nil, x.fn.Pos(), "unchanged "+name, Eq(after, before))
				continue
			}
			r := x.fresh("fr", SInt)
			// (objects are numbered from 1: 0 is nil - also the backing array of a nil slice - and has no contents)
			conds := []Term{Le(IntLit(1), r), Le(r, entry.wm)}
			for _, rr := range refs {
				conds = append(conds, Not(Eq(r, rr)))
			}
			x.check(out, "frame", nil, x.fn.Pos(), "only declared objects change in "+name, Implies(And(conds...), Eq(Select(after, r), Select(before, r))))
			for _, f := range mods.fromOf(name) {
				i := x.fresh("fi", SInt)
				x.check(out, "frame", nil, x.fn.Pos(), "only the declared positions change in "+name, Implies(Lt(i, f.lo), Eq(Select(Select(after, f.ref), i), Select(Select(before, f.ref), i))))
			}
		}
	}
}

// tierKey: answers obtained in the thorough tier are kept apart from those of the quick tier (a thorough run only
// reuses answers of thorough runs: the sweeps of C03-C06 and C20 share most of their obligations).
func tierKey(opts VerifyOpts, k string) string {
	if opts.Thorough {
		return "T" + k
	}
	return k
}

// smtFor renders the query for one obligation (or a batch when obls has several).
func (x *Exec) smtFor(obls []*Obligation, timeoutMs int) string {
	var b strings.Builder
	b.WriteString(prelude)
	for _, d := range x.decls {
		b.WriteString(d)
		b.WriteByte('\n')
	}
	nA := 0
	for _, o := range obls {
		if o.NAssert > nA {
			nA = o.NAssert
		}
	}
	if len(obls) > 1 {
		nA = len(x.asserts)
	}
	for _, a := range x.asserts[:nA] {
		b.WriteString(a)
		b.WriteByte('\n')
	}
	// lemma axioms are appended at the end of asserts; always include them
	if x.lemmaStart > 0 && nA < len(x.asserts) {
		for _, a := range x.asserts[max(nA, x.lemmaStart):] {
			b.WriteString(a)
			b.WriteByte('\n')
		}
	}
	var negs []Term
	for _, o := range obls {
		negs = append(negs, And(o.PC, Not(o.Goal)))
	}
	b.WriteString("(assert " + Or(negs...).S + ")\n(check-sat)\n")
	return b.String()
}

func max(a, b int) int {
	if a > b {
		return a
	}
	return b
}

// The semaphore counts solver processes, not queries: a portfolio run starts portfolioWidth processes at once,
// an incremental script one. With more processes than cores a solver's wall-clock limit buys only a fraction
// of that time in CPU, and proofs that take two seconds alone time out under load.
const portfolioWidth = 5

var semMu sync.Mutex

func acquire(sem chan struct{}, k int) {
	if k > cap(sem) {
		k = cap(sem)
	}
	semMu.Lock()
	for i := 0; i < k; i++ {
		sem <- struct{}{}
	}
	semMu.Unlock()
}

func release(sem chan struct{}, k int) {
	if k > cap(sem) {
		k = cap(sem)
	}
	for i := 0; i < k; i++ {
		<-sem
	}
}

// discharge runs the solvers on all obligations of a function result.
func discharge(res *FuncResult, opts VerifyOpts, sem chan struct{}) {
	x := res.exec
	t0 := time.Now()
	var pending []*Obligation
	for _, o := range res.Obls {
		if o.Kind == "cover" {
			continue
		}
		if o.Goal.S == "true" {
			o.Result = &SolverResult{Status: "unsat", Solver: "trivial"}
			continue
		}
		if os.Getenv("GOVC_OVERLAY") == "" {
			if sv, ok := cacheGet(tierKey(opts, x.cacheKey(o))); ok {
				o.Result = &SolverResult{Status: "unsat", Solver: "cached"}
				_ = sv
				continue
			}
		}
		pending = append(pending, o)
	}
	defer func() {
		for _, o := range pending {
			if o.Result != nil && o.Result.Status == "unsat" && o.Kind != "cover" {
				cachePut(tierKey(opts, x.cacheKey(o)), o.Result.Solver)
			}
		}
	}()
	run := func(obls []*Obligation, needAll bool) SolverResult {
		acquire(sem, portfolioWidth)
		defer release(sem, portfolioWidth)
		return runPortfolio(x.smtFor(obls, opts.TimeoutS*1000), opts.TimeoutS, opts.Seed, opts.Solvers, needAll)
	}
	runT := func(obls []*Obligation, t int) SolverResult {
		acquire(sem, portfolioWidth)
		defer release(sem, portfolioWidth)
		if t > opts.TimeoutS {
			t = opts.TimeoutS
		}
		return runPortfolio(x.smtFor(obls, t*1000), t, opts.Seed, opts.Solvers, false)
	}
	// batch first, then bisect
	var solve func(obls []*Obligation)
	var wg sync.WaitGroup
	solve = func(obls []*Obligation) {
		defer wg.Done()
		if len(obls) == 0 {
			return
		}
		if len(obls) == 1 {
			o := obls[0]
			if (o.Kind == "post" || o.Kind == "frame") && len(x.retInfos) > 1 && opts.TimeoutS > 3 && !opts.Thorough && os.Getenv("GOVC_NOSPLIT") == "" {
				// an exit obligation that is not decided quickly is split by return statement: it holds iff it
				// holds on every return path (and the exit is reached by no other path)
				r := runT(obls, 3)
				if r.Status == "unsat" || r.Status == "sat" {
					o.Result = &r
					return
				}
				parts := make([]*Obligation, 0, len(x.retInfos)+1)
				var pcs []Term
				for _, ri := range x.retInfos {
					o2 := *o
					o2.PC = And(o.PC, ri.pc)
					parts = append(parts, &o2)
					pcs = append(pcs, ri.pc)
				}
				o3 := *o
				o3.PC = And(o.PC, Not(Or(pcs...)))
				parts = append(parts, &o3)
				rs := make([]SolverResult, len(parts))
				var pw sync.WaitGroup
				for i := range parts {
					pw.Add(1)
					go func(i int) {
						defer pw.Done()
						rs[i] = run(parts[i:i+1], false)
					}(i)
				}
				pw.Wait()
				all := true
				tot := SolverResult{Status: "unsat", Solver: "by-return-path"}
				for _, pr := range rs {
					if pr.Status != "unsat" {
						all = false
					}
					if pr.Seconds > tot.Seconds {
						tot.Seconds = pr.Seconds
					}
				}
				if all {
					o.Result = &tot
					return
				}
			}
			r := run(obls, opts.Thorough)
			o.Result = &r
			return
		}
		if os.Getenv("GOVC_KEEPALL") != "" {
			os.MkdirAll(filepath.Join(verifRoot(), "out", "failed"), 0o755)
			os.WriteFile(filepath.Join(verifRoot(), "out", "failed", sanitize(x.key)+".batch.smt2"), []byte(x.smtFor(obls, 0)), 0o644)
		}
		r := runT(obls, 3)
		if r.Status == "unsat" {
			for _, o := range obls {
				rr := r
				o.Result = &rr
			}
			return
		}
		// the batch did not go through: every obligation on its own, in parallel
		for i := range obls {
			wg.Add(1)
			go solve(obls[i : i+1])
		}
	}
	// quantified goals are solved on their own: a disjunction of negated quantified goals is much harder
	// than its parts; quantifier-free goals (the bulk of the safety obligations) go as one batch first
	var qf []*Obligation
	for _, o := range pending {
		if hasQuant(o.Goal) {
			wg.Add(1)
			go solve([]*Obligation{o})
		} else {
			qf = append(qf, o)
		}
	}
	wg.Add(1)
	go func() {
		// quantifier-free goals: one incremental script per function. Each goal is checked under exactly the
		// assertions made before it (assert prefix, then push / check-sat / pop), by two solvers side by side;
		// what neither decides goes to the portfolio on its own.
		rest := x.incrementalQF(qf, sem)
		for i := range rest {
			wg.Add(1)
			go solve(rest[i : i+1])
		}
		wg.Done()
	}()
	// cover obligations: must be satisfiable
	for _, o := range res.Obls {
		if o.Kind != "cover" {
			continue
		}
		wg.Add(1)
		go func(o *Obligation) {
			defer wg.Done()
			r := runT([]*Obligation{o}, 2)
			// for a cover check "sat" is the good answer; "unknown" is tolerated (recorded)
			o.Result = &r
		}(o)
	}
	wg.Wait()
	// diagnosis: a failed postcondition is re-checked per return statement
	if os.Getenv("GOVC_DIAG") != "" {
		for _, o := range res.Obls {
			if o.Kind != "post" || obligationOK(o) || o.Result == nil {
				continue
			}
			var bad []string
			for _, ri := range x.retInfos {
				o2 := *o
				o2.PC = And(o.PC, ri.pc)
				r := run([]*Obligation{&o2}, false)
				if r.Status != "unsat" {
					bad = append(bad, fmt.Sprintf("line %d (%s)", x.P.Fset.Position(ri.pos).Line, r.Status))
				}
			}
			o.Note = "fails on return paths: " + strings.Join(bad, ", ")
		}
	}
	res.Seconds = time.Since(t0).Seconds()
	if opts.Keep {
		for _, o := range res.Obls {
			if o.Result != nil && (!obligationOK(o) || os.Getenv("GOVC_KEEPALL") != "") {
				dir := filepath.Join(verifRoot(), "out", "failed")
				os.MkdirAll(dir, 0o755)
				os.WriteFile(filepath.Join(dir, sanitize(o.Name)+".smt2"), []byte(x.smtFor([]*Obligation{o}, 0)), 0o644)
			}
		}
	}
}

func obligationOK(o *Obligation) bool {
	if o.Result == nil {
		return false
	}
	if o.Kind == "cover" {
		return o.Result.Status != "unsat"
	}
	return o.Result.Status == "unsat"
}

// buildLemmaVC builds the proof obligation of a lemma: requires ==> ensures for arbitrary parameters.
func buildLemmaVC(P *Program, C *Contracts, lm *Lemma) *FuncResult {
	x := newExec(P, C, nil)
	x.key = "lemma." + lm.Name
	x.loopsNoMeasure = map[string]bool{}
	res := &FuncResult{Key: x.key, exec: x}
	defer func() {
		if r := recover(); r != nil {
			switch e := r.(type) {
			case specErr:
				res.Error = e.msg
			case error:
				res.Error = e.Error()
			default:
				res.Error = fmt.Sprintf("%v", r)
			}
		}
	}()
	st := &State{pc: True, cells: map[*ssa.Alloc]Value{}, heap: map[string]Term{}, ghost: map[string]Value{}}
	st.epoch = x.newEpoch(0)
	st.wm = x.declare("wm0", SInt)
	env := &SpecEnv{x: x, st: st, vars: map[string]SVal{}, noHeap: true}
	if p, ok := P.Pkgs[lm.Pkg]; ok {
		env.pkg = p.Types
	}
	for _, p := range lm.Params {
		T := x.resolveType(env, p.T)
		ls := leavesOfS(T)
		ts := make([]Term, len(ls))
		for i, l := range ls {
			ts[i] = x.fresh("in."+p.Name+l.Name, l.Sort)
		}
		env.vars[p.Name] = SVal{x.unflattenS(T, ts), T}
	}
	for _, c := range lm.Requires {
		st.pc = x.andPC(st.pc, x.evalBool(env, c.E))
	}
	x.lemmasIn = true // a lemma is proved without the help of other lemmas
	for _, c := range lm.Ensures {
		x.check(st, "lemma", c.Tags, 0, lm.Name+": "+c.Text, x.evalBool(env, c.E))
	}
	res.Obls = x.obls
	return res
}


// globalInvStores scans every function with a body in the loaded program for an assignment to a package-level
// variable named by the global invariant c (other than in the package initialiser).
func (x *Exec) globalInvStores(pk *types.Package, c *Clause) string {
	names := map[string]bool{}
	walkExpr(c.E, func(e Expr) {
		if id, ok := e.(*EIdent); ok {
			names[id.Name] = true
		}
	})
	sp := x.P.Prog.Package(pk)
	if sp == nil {
		return ""
	}
	globals := map[*ssa.Global]bool{}
	for n := range names {
		if g, ok := sp.Members[n].(*ssa.Global); ok {
			globals[g] = true
		}
	}
	if len(globals) == 0 {
		return "names no package-level variable"
	}
	key := "globalinv-scan:" + pk.Path() + ":" + c.Text
	if r, ok := scanCache[key]; ok {
		return r
	}
	res := ""
	for fn := range ssautil.AllFunctions(x.P.Prog) {
		if fn.Synthetic != "" && fn.Name() == "init" {
			continue
		}
		if fn.Name() == "init" && fn.Pkg == sp {
			continue
		}
		for _, b := range fn.Blocks {
			for _, ins := range b.Instrs {
				if s, ok := ins.(*ssa.Store); ok {
					if g, ok := s.Addr.(*ssa.Global); ok && globals[g] {
						res = fmt.Sprintf("%s assigns %s", fn.String(), g.Name())
					}
				}
			}
		}
	}
	scanCache[key] = res
	return res
}

var scanCache = map[string]string{}


// incrementalQF checks the given obligations (in creation order) with one incremental solver run each for
// z3 4.8.12 and z3 5.1.0 (mbqi off) and returns those that neither refuted.
func (x *Exec) incrementalQF(obls []*Obligation, sem chan struct{}) []*Obligation {
	if len(obls) == 0 {
		return nil
	}
	var b strings.Builder
	b.WriteString(strings.Replace(prelude, "(set-logic ALL)\n", "", 1))
	for _, d := range x.decls {
		b.WriteString(d)
		b.WriteByte('\n')
	}
	if x.lemmaStart > 0 {
		for _, a := range x.asserts[x.lemmaStart:] {
			b.WriteString(a)
			b.WriteByte('\n')
		}
	}
	limit := len(x.asserts)
	if x.lemmaStart > 0 {
		limit = x.lemmaStart
	}
	cur := 0
	for _, o := range obls {
		n := o.NAssert
		if n > limit {
			n = limit
		}
		if n < cur {
			// not in creation order: fall back
			return obls
		}
		for _, a := range x.asserts[cur:n] {
			b.WriteString(a)
			b.WriteByte('\n')
		}
		cur = n
		b.WriteString("(push 1)\n(assert " + And(o.PC, Not(o.Goal)).S + ")\n(check-sat)\n(pop 1)\n")
	}
	f, err := os.CreateTemp(scratchDir(), "inc*.smt2")
	if err != nil {
		return obls
	}
	f.WriteString(b.String())
	f.Close()
	defer os.Remove(f.Name())
	type run struct {
		name string
		argv []string
	}
	total := 20 + len(obls)/4
	runs := []run{
		{"z3-5.1.0/inc", []string{"z3-new", "-smt2", "-t:2000", fmt.Sprintf("-T:%d", total), "smt.mbqi=false", "smt.auto_config=false", f.Name()}},
		{"z3-4.8.12/inc", []string{"/usr/bin/z3", "-smt2", "-t:2000", fmt.Sprintf("-T:%d", total), "smt.mbqi=false", "smt.auto_config=false", f.Name()}},
	}
	results := make([][]string, len(runs))
	secs := make([]float64, len(runs))
	var wg sync.WaitGroup
	for i, r := range runs {
		wg.Add(1)
		go func(i int, r run) {
			defer wg.Done()
			sem <- struct{}{}
			defer func() { <-sem }()
			t0 := time.Now()
			ctx, cancel := context.WithTimeout(context.Background(), time.Duration(total+5)*time.Second)
			defer cancel()
			cmd := exec.CommandContext(ctx, r.argv[0], r.argv[1:]...)
			var out bytes.Buffer
			cmd.Stdout = &out
			cmd.Run()
			secs[i] = time.Since(t0).Seconds()
			for _, ln := range strings.Split(out.String(), "\n") {
				ln = strings.TrimSpace(ln)
				switch ln {
				case "sat", "unsat", "unknown", "timeout":
					results[i] = append(results[i], ln)
				default:
					if strings.HasPrefix(ln, "(error") {
						// an error desynchronises the answers: discard this run
						results[i] = nil
						return
					}
				}
			}
		}(i, r)
	}
	wg.Wait()
	var rest []*Obligation
	for k, o := range obls {
		done := false
		for i := range runs {
			if k < len(results[i]) && results[i][k] == "unsat" {
				o.Result = &SolverResult{Status: "unsat", Solver: runs[i].name, Seconds: secs[i] / float64(len(obls))}
				done = true
				break
			}
		}
		if !done {
			rest = append(rest, o)
		}
	}
	return rest
}
