package main

// A short-lived cache of solver answers, so that the checks of several properties that share functions (the
// executors belong to C03, C04, C05, C06, C20 ...) do not pay for the same proof obligation five times in a row.
//
// What is cached: only "unsat", only for a query whose complete text (prelude, declarations, the assertions
// visible to the obligation, path condition, goal) hashes to the same value, and only for a limited time
// (GOVC_CACHE_TTL seconds, default 3600; 0 disables). Every run still loads /repo's current working tree, builds
// SSA, reads the contracts and generates every verification condition anew; a changed function, contract or
// engine yields different query text and is solved afresh. The thorough tier only reads answers that thorough runs stored (its keys are kept apart). Evidence
// reports the number of hits.

import (
	"bufio"
	"crypto/sha256"
	"encoding/hex"
	"fmt"
	"os"
	"path/filepath"
	"strconv"
	"strings"
	"sync"
	"sync/atomic"
	"time"
)

const cacheVersion = "govc-cache-3" // bump when solver configurations or the prelude change

var (
	cacheOnce sync.Once
	cacheMap  map[string]string
	cacheMu   sync.Mutex
	cacheFile *os.File
	cacheHits int64
	cacheOff  bool
)

func cacheTTL() int64 {
	if s := os.Getenv("GOVC_CACHE_TTL"); s != "" {
		n, _ := strconv.ParseInt(s, 10, 64)
		return n
	}
	return 3600
}

func cacheLoad() {
	cacheOnce.Do(func() {
		cacheMap = map[string]string{}
		ttl := cacheTTL()
		if ttl <= 0 {
			cacheOff = true
			return
		}
		dir := filepath.Join(verifRoot(), "out", "vccache")
		os.MkdirAll(dir, 0o755)
		path := filepath.Join(dir, "answers.log")
		now := time.Now().Unix()
		if f, err := os.Open(path); err == nil {
			sc := bufio.NewScanner(f)
			fresh := 0
			total := 0
			for sc.Scan() {
				fs := strings.Fields(sc.Text())
				if len(fs) != 3 {
					continue
				}
				total++
				ts, _ := strconv.ParseInt(fs[0], 10, 64)
				if now-ts <= ttl && ts <= now {
					cacheMap[fs[1]] = fs[2]
					fresh++
				}
			}
			f.Close()
			// compact a log that is mostly stale
			if total > 20000 && fresh*2 < total {
				os.Remove(path)
				if nf, err := os.OpenFile(path, os.O_CREATE|os.O_WRONLY|os.O_APPEND, 0o644); err == nil {
					for k, v := range cacheMap {
						fmt.Fprintf(nf, "%d %s %s\n", now, k, v)
					}
					nf.Close()
				}
			}
		}
		cacheFile, _ = os.OpenFile(path, os.O_CREATE|os.O_WRONLY|os.O_APPEND, 0o644)
	})
}

// prefixHashes: h[k] identifies prelude + declarations + asserts[:k] of this function's encoding.
func (x *Exec) prefixHashes() [][32]byte {
	if x.prefHash != nil && len(x.prefHash) == len(x.asserts)+1 {
		return x.prefHash
	}
	h := sha256.New()
	h.Write([]byte(cacheVersion))
	h.Write([]byte(prelude))
	for _, d := range x.decls {
		h.Write([]byte(d))
		h.Write([]byte{'\n'})
	}
	var cur [32]byte
	copy(cur[:], h.Sum(nil))
	out := make([][32]byte, len(x.asserts)+1)
	out[0] = cur
	for i, a := range x.asserts {
		hh := sha256.New()
		hh.Write(cur[:])
		hh.Write([]byte(a))
		copy(cur[:], hh.Sum(nil))
		out[i+1] = cur
	}
	x.prefHash = out
	return out
}

func (x *Exec) cacheKey(o *Obligation) string {
	ph := x.prefixHashes()
	n := o.NAssert
	if n > len(x.asserts) {
		n = len(x.asserts)
	}
	h := sha256.New()
	h.Write(ph[n][:])
	// lemma axioms appended after the function's own assertions are always part of the query
	if x.lemmaStart > 0 && n < len(x.asserts) {
		s := n
		if x.lemmaStart > s {
			s = x.lemmaStart
		}
		h.Write(ph[len(x.asserts)][:])
		h.Write([]byte(strconv.Itoa(s)))
	}
	h.Write([]byte(o.PC.S))
	h.Write([]byte{0})
	h.Write([]byte(o.Goal.S))
	return hex.EncodeToString(h.Sum(nil))
}

func cacheGet(key string) (string, bool) {
	cacheLoad()
	if cacheOff {
		return "", false
	}
	cacheMu.Lock()
	defer cacheMu.Unlock()
	s, ok := cacheMap[key]
	if ok {
		atomic.AddInt64(&cacheHits, 1)
	}
	return s, ok
}

func cachePut(key, solver string) {
	cacheLoad()
	if cacheOff || cacheFile == nil {
		return
	}
	solver = strings.ReplaceAll(solver, " ", "_")
	if solver == "" {
		solver = "?"
	}
	cacheMu.Lock()
	defer cacheMu.Unlock()
	if _, ok := cacheMap[key]; ok {
		return
	}
	cacheMap[key] = solver
	fmt.Fprintf(cacheFile, "%d %s %s\n", time.Now().Unix(), key, solver)
}
