package memdb

import (
	"fmt"
	"testing"

	"github.com/innovationb1ue/RedisGO/config"
	"github.com/innovationb1ue/RedisGO/logger"
)

// KEYS with a wrong number of arguments: the error path formats cmd[1], which does not exist for a bare KEYS.
// Found by obligation memdb.keysKey/bounds[cmd[1]] (C04).
func TestDemoKeysArity(t *testing.T) {
	cfg := &config.Config{ShardNum: 16, Databases: 4, LogDir: t.TempDir(), LogLevel: "panic"}
	logger.SetUp(cfg)
	logger.Disable()
	RegisterKeyCommands()
	m := NewMemDb()
	out := run(m, "keys")
	fmt.Println("KEYS (no pattern):", out)
	if len(out) >= 5 && out[:5] == "PANIC" {
		t.Fatal("KEYS without a pattern panics")
	}
}
