package memdb

import (
	"fmt"
	"strings"
	"testing"
)

// Demonstrations of defects in the set commands on the real code (run with tools/demo.sh memdb <Test> set_defects_test.go string_defects_test.go).

// SRANDMEMBER with a huge count: Set.Random sizes its result by |count| (computed through float64), so a client
// argument makes the server request an impossible allocation and panic.  [obligation memdb.Set.Random/alloc]
func TestDemoSRandMemberHugeCount(t *testing.T) {
	RegisterSetCommands()
	m := NewMemDb()
	run(m, "sadd", "s", "a", "b")
	bad := 0
	for _, c := range []string{"4611686018427387904", "-9223372036854775808"} {
		out := runT(m, 2e9, "srandmember", "s", c)
		fmt.Println("SRANDMEMBER s", c, "->", out)
		if strings.HasPrefix(out, "PANIC") || strings.HasPrefix(out, "<no reply") {
			bad++
		}
	}
	if bad > 0 {
		t.Fatal("SRANDMEMBER with an extreme count panics or hangs")
	}
}
