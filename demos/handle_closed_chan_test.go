package server

import (
	"context"
	"errors"
	"fmt"
	"net"
	"testing"
	"time"

	"github.com/innovationb1ue/RedisGO/config"
	"github.com/innovationb1ue/RedisGO/logger"
)

type errConn struct {
	net.Conn
	release chan struct{}
}

func (c *errConn) Read(p []byte) (int, error) { <-c.release; return 0, errors.New("connection reset") }
func (c *errConn) Write(p []byte) (int, error) { return len(p), nil }
func (c *errConn) Close() error                { return nil }
func (c *errConn) RemoteAddr() net.Addr        { return &net.TCPAddr{} }

// During shutdown (context cancelled) a failing read makes the parser close its channel; the handler may
// then receive nil from the closed channel and dereference it.
func TestDemoHandleClosedChan(t *testing.T) {
	cfg := &config.Config{ShardNum: 16, Databases: 1, LogDir: "/tmp/govc-demo-log", LogLevel: "panic"}
	config.Configures = cfg
	logger.SetUp(cfg)
	logger.Disable()
	mgr := NewManager(cfg)
	crashed := 0
	for i := 0; i < 200; i++ {
		func() {
			defer func() {
				if r := recover(); r != nil {
					crashed++
				}
			}()
			ctx, cancel := context.WithCancel(context.Background())
			c := &errConn{release: make(chan struct{})}
			cancel()
			close(c.release)
			time.Sleep(200 * time.Microsecond)
			mgr.Handle(ctx, c)
		}()
	}
	fmt.Println("handler panicked with a nil dereference in", crashed, "of 200 shutdown races")
}
