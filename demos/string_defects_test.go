package memdb

// Demonstrations of defects in the string commands on the real code (run with go test -overlay).
import (
	"context"
	"fmt"
	"testing"
	"time"

	"github.com/innovationb1ue/RedisGO/resp"
)

func run(m *MemDb, args ...string) (out string) {
	defer func() {
		if r := recover(); r != nil {
			out = fmt.Sprintf("PANIC: %v", r)
		}
	}()
	cmd := make([][]byte, len(args))
	for i, a := range args {
		cmd[i] = []byte(a)
	}
	r := m.ExecCommand(context.Background(), cmd, nil)
	if r == nil {
		return "<nil reply>"
	}
	return fmt.Sprintf("%q", string(r.ToBytes()))
}

func expire(m *MemDb, key string) { // mark key as already expired without starting a timer
	m.ttlKeys.Set(key, &TTLInfo{value: time.Now().Unix() - 10, cancel: make(chan struct{})})
}

func TestDemoStringDefects(t *testing.T) {
	_ = resp.MakeIntData
	RegisterKeyCommands()
	RegisterStringCommands()
	m := NewMemDb()
	fmt.Println("SET (no args):", run(m, "set"))
	fmt.Println("SET k v PX:", run(m, "set", "k", "v", "px"))
	fmt.Println("SET Foo x:", run(m, "set", "Foo", "x"), " GET Foo:", run(m, "get", "Foo"))
	fmt.Println("SET n v NX (new key):", run(m, "set", "n", "v", "nx"))
	run(m, "set", "e", "old")
	expire(m, "e")
	fmt.Println("GET expired:", run(m, "get", "e"))
	run(m, "set", "e2", "old")
	expire(m, "e2")
	fmt.Println("STRLEN expired:", run(m, "strlen", "e2"), " APPEND expired:", run(m, "append", "e2", "x"), " SETNX expired:", run(m, "setnx", "e2", "new"))
	run(m, "set", "c", "9223372036854775807")
	fmt.Println("INCR at MaxInt64:", run(m, "incr", "c"))
	fmt.Println("SETEX k 0 v:", run(m, "setex", "z", "0", "v"), " SETEX k -5 v:", run(m, "setex", "z", "-5", "v"))
	run(m, "set", "g", "abcdefgh")
	fmt.Println("GETRANGE g 0 100:", run(m, "getrange", "g", "0", "100"))
}
