package server

import (
	"bufio"
	"context"
	"fmt"
	"net"
	"testing"
	"time"

	"github.com/innovationb1ue/RedisGO/config"
	"github.com/innovationb1ue/RedisGO/logger"
	"github.com/innovationb1ue/RedisGO/memdb"
)

func send(c net.Conn, r *bufio.Reader, args ...string) string {
	msg := fmt.Sprintf("*%d\r\n", len(args))
	for _, a := range args {
		msg += fmt.Sprintf("$%d\r\n%s\r\n", len(a), a)
	}
	c.SetDeadline(time.Now().Add(2 * time.Second))
	c.Write([]byte(msg))
	line, _ := r.ReadString('\n')
	if len(line) > 0 && line[0] == '$' && line != "$-1\r\n" {
		l2, _ := r.ReadString('\n')
		line += l2
	}
	return fmt.Sprintf("%q", line)
}

// SELECT on one connection must not change the database another connection works on.
func TestDemoSelectShared(t *testing.T) {
	cfg := &config.Config{ShardNum: 16, Databases: 4, LogDir: "/tmp/govc-demo-log", LogLevel: "panic"}
	config.Configures = cfg
	logger.SetUp(cfg)
	logger.Disable()
	memdb.RegisterKeyCommands()
	memdb.RegisterStringCommands()
	mgr := NewManager(cfg)
	ctx, cancel := context.WithCancel(context.Background())
	defer cancel()
	a1, a2 := net.Pipe()
	b1, b2 := net.Pipe()
	go mgr.Handle(ctx, a2)
	go mgr.Handle(ctx, b2)
	ra, rb := bufio.NewReader(a1), bufio.NewReader(b1)
	fmt.Println("conn A: SET k zero ->", send(a1, ra, "set", "k", "zero"))
	fmt.Println("conn B: SELECT 1  ->", send(b1, rb, "select", "1"))
	fmt.Println("conn A: GET k     ->", send(a1, ra, "get", "k"), "(A never selected another database; must still see \"zero\")")
}
