package memdb

import (
	"fmt"
	"testing"
	"time"
)

func runT(m *MemDb, d time.Duration, args ...string) string {
	ch := make(chan string, 1)
	go func() { ch <- run(m, args...) }()
	select {
	case s := <-ch:
		return s
	case <-time.After(d):
		return "<no reply within " + d.String() + ">"
	}
}

func TestDemoHashDefects(t *testing.T) {
	RegisterKeyCommands()
	RegisterStringCommands()
	RegisterHashCommands()
	m := NewMemDb()
	fmt.Println("HSET h f \"\":", run(m, "hset", "h", "f", ""), " HGET h f:", run(m, "hget", "h", "f"), " HEXISTS h f:", run(m, "hexists", "h", "f"), " HMGET h f:", run(m, "hmget", "h", "f"))
	fmt.Println("HSET h2 a 1 b 2 (two new fields):", run(m, "hset", "h2", "a", "1", "b", "2"))
	run(m, "hset", "e", "f", "v")
	expire(m, "e")
	fmt.Println("HDEL on expired key:", run(m, "hdel", "e", "f"), "(the key is past its deadline: nothing to delete, reply must be 0)")
	run(m, "hset", "c", "n", "9223372036854775807")
	fmt.Println("HINCRBY at MaxInt64:", run(m, "hincrby", "c", "n", "1"))
	run(m, "hset", "z", "n", "")
	fmt.Println("HRANDFIELD h2 -9223372036854775808:", runT(m, 300*time.Millisecond, "hrandfield", "h2", "-9223372036854775808"))
}
