package memdb

import (
	"fmt"
	"sync"
	"sync/atomic"
	"testing"
	"time"
)

// CheckTTL decides on an unlocked read of the deadline and deletes later: a value written (and
// acknowledged) between the read and the delete is lost.
func TestDemoCheckTTLRace(t *testing.T) {
	RegisterKeyCommands()
	RegisterStringCommands()
	m := NewMemDb()
	var lost int64
	var wg sync.WaitGroup
	stop := int32(0)
	wg.Add(2)
	go func() { // a reader that keeps triggering the lazy expiry
		defer wg.Done()
		for atomic.LoadInt32(&stop) == 0 {
			m.CheckTTL("k")
		}
	}()
	go func() { // a writer: make k "already expired", then SET it (no deadline) and read it back
		defer wg.Done()
		for i := 0; i < 300000 && atomic.LoadInt64(&lost) == 0; i++ {
			m.locks.Lock("k")
			m.db.Set("k", []byte("old"))
			m.ttlKeys.Set("k", &TTLInfo{value: time.Now().Unix() - 10, cancel: make(chan struct{})})
			m.locks.UnLock("k")
			if got := run(m, "set", "k", "new"); got != "\"+OK\\r\\n\"" {
				continue
			}
			if got := run(m, "get", "k"); got == "\"$-1\\r\\n\"" {
				atomic.AddInt64(&lost, 1)
			}
		}
		atomic.StoreInt32(&stop, 1)
	}()
	wg.Wait()
	fmt.Println("acknowledged SET lost to a concurrent lazy expiry:", lost, "time(s)")
}
