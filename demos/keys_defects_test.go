package memdb

import (
	"fmt"
	"testing"
)

func TestDemoKeysDefects(t *testing.T) {
	RegisterKeyCommands()
	RegisterStringCommands()
	RegisterListCommands()
	RegisterSortedSetCommands()
	m := NewMemDb()
	fmt.Println("DEL (no args):", run(m, "del"))
	run(m, "set", "a", "1")
	run(m, "set", "b", "2")
	expire(m, "a")
	fmt.Println("DEL a(expired) b:", run(m, "del", "a", "b"), " EXISTS b afterwards:", run(m, "exists", "b"))
	run(m, "set", "p", "1")
	fmt.Println("EXPIRE p 100 LT (no deadline yet):", run(m, "expire", "p", "100", "lt"), " TTL p:", run(m, "ttl", "p"))
	run(m, "set", "r", "v")
	run(m, "expire", "r", "100")
	fmt.Println("RENAME r r2:", run(m, "rename", "r", "r2"), " TTL r2:", run(m, "ttl", "r2"))
	run(m, "zadd", "z", "1", "a")
	fmt.Println("TYPE z (sorted set):", run(m, "type", "z"))
	run(m, "set", "x", "1")
	expire(m, "x")
	fmt.Println("TYPE x (expired):", run(m, "type", "x"), " TYPE nokey:", run(m, "type", "nokey"))
	run(m, "lpush", "l", "a")
	run(m, "expire", "l", "100")
	run(m, "lpop", "l")
	run(m, "set", "l", "fresh")
	fmt.Println("after LPUSH/EXPIRE/LPOP(list gone)/SET l: TTL l =", run(m, "ttl", "l"), "(a plain SET key must have no deadline)")
}
