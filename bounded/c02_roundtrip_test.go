package resp

// Bounded stand-in for C02 (end-to-end part): decode(encode(args)) == args for every split of the
// byte stream into network reads, with pipelining. Injected with `go test -overlay`.

import (
	"bytes"
	"context"
	"fmt"
	"io"
	"os"
	"strconv"
	"testing"
)

type chunkReader struct {
	data []byte
	cuts []int // chunk boundaries (absolute positions, ascending)
	pos  int
}

func (c *chunkReader) Read(p []byte) (int, error) {
	if c.pos >= len(c.data) {
		return 0, io.EOF
	}
	end := len(c.data)
	for _, k := range c.cuts {
		if k > c.pos {
			end = k
			break
		}
	}
	n := copy(p, c.data[c.pos:end])
	c.pos += n
	return n, nil
}

func encodeCmd(args [][]byte) []byte {
	var b bytes.Buffer
	b.WriteString("*" + strconv.Itoa(len(args)) + "\r\n")
	for _, a := range args {
		b.WriteString("$" + strconv.Itoa(len(a)) + "\r\n")
		b.Write(a)
		b.WriteString("\r\n")
	}
	return b.Bytes()
}

func TestGovcBoundedRoundTrip(t *testing.T) {
	alpha := []byte{'\r', '\n', 0, 'a', 0xff}
	// quick: <= 2 arguments of <= 2 bytes, <= 3 reads. thorough: the same commands under <= 4 reads, and then
	// <= 3 arguments of <= 1 byte under <= 4 reads (about 2 million cases; <= 3 arguments of <= 2 bytes under 4 reads
	// would be 10^8 cases)
	configs := [][3]int{{2, 2, 2}}
	if os.Getenv("GOVC_BOUNDED_TIER") == "thorough" {
		configs = [][3]int{{2, 2, 3}, {3, 1, 3}}
	}
	cases, distinct := 0, 0
	seen := map[string]bool{}
	for _, cfgN := range configs {
		maxArgs, maxLen, maxCuts := cfgN[0], cfgN[1], cfgN[2]
		c02RoundTrip(t, alpha, maxArgs, maxLen, maxCuts, &cases, &distinct, seen)
	}
	fmt.Printf("GOVC-BOUNDED cases=%d distinct=%d\n", cases, distinct)
}

func c02RoundTrip(t *testing.T, alpha []byte, maxArgs, maxLen, maxCuts int, casesP, distinctP *int, seen map[string]bool) {
	var words [][]byte
	var gen func(cur []byte)
	gen = func(cur []byte) {
		words = append(words, append([]byte{}, cur...))
		if len(cur) == maxLen {
			return
		}
		for _, c := range alpha {
			gen(append(cur, c))
		}
	}
	gen(nil)
	var cmds [][][]byte
	var genCmd func(cur [][]byte)
	genCmd = func(cur [][]byte) {
		if len(cur) > 0 {
			cmds = append(cmds, append([][]byte{}, cur...))
		}
		if len(cur) == maxArgs {
			return
		}
		for _, w := range words {
			genCmd(append(cur, w))
		}
	}
	genCmd(nil)
	check := func(stream []byte, want [][][]byte, cuts []int) {
		*casesP++
		// (the enumeration visits every (stream, cuts) pair once; the explicit set is kept while it is small)
		if len(seen) < 1500000 {
			key := string(stream) + fmt.Sprint(cuts)
			if !seen[key] {
				seen[key] = true
				*distinctP++
			}
		} else {
			*distinctP++
		}
		ctx, cancel := context.WithCancel(context.Background())
		defer cancel()
		ch := ParseStream(ctx, &chunkReader{data: stream, cuts: cuts})
		for i, w := range want {
			r, ok := <-ch
			if !ok || r.Err != nil {
				fmt.Printf("GOVC-BOUNDED-FAIL stream %q cuts %v: command %d not decoded (err %v)\n", stream, cuts, i, r)
				t.Fatalf("stream %q cuts %v: command %d not decoded", stream, cuts, i)
			}
			arr, isArr := r.Data.(*ArrayData)
			if !isArr {
				fmt.Printf("GOVC-BOUNDED-FAIL stream %q cuts %v: command %d is not an array\n", stream, cuts, i)
				t.Fatalf("not an array")
			}
			got := arr.ToCommand()
			if len(got) != len(w) {
				fmt.Printf("GOVC-BOUNDED-FAIL stream %q cuts %v: command %d has %d args, want %d\n", stream, cuts, i, len(got), len(w))
				t.Fatalf("arg count")
			}
			for k := range w {
				if !bytes.Equal(got[k], w[k]) {
					fmt.Printf("GOVC-BOUNDED-FAIL stream %q cuts %v: command %d arg %d = %q, want %q\n", stream, cuts, i, k, got[k], w[k])
					t.Fatalf("arg mismatch")
				}
			}
		}
		r, ok := <-ch
		if ok && r.Err != io.EOF {
			fmt.Printf("GOVC-BOUNDED-FAIL stream %q cuts %v: trailing result %v\n", stream, cuts, r)
			t.Fatalf("trailing result")
		}
	}
	var cutSets func(n, from, left int, cur []int, f func([]int))
	cutSets = func(n, from, left int, cur []int, f func([]int)) {
		f(cur)
		if left == 0 {
			return
		}
		for k := from; k < n; k++ {
			cutSets(n, k+1, left-1, append(append([]int{}, cur...), k), f)
		}
	}
	for ci, c := range cmds {
		stream := encodeCmd(c)
		cutSets(len(stream), 1, maxCuts, nil, func(cuts []int) { check(stream, [][][]byte{c}, cuts) })
		// two pipelined commands, one cut anywhere
		if ci%7 == 0 {
			c2 := cmds[(ci*31+5)%len(cmds)]
			s2 := append(append([]byte{}, stream...), encodeCmd(c2)...)
			cutSets(len(s2), 1, 1, nil, func(cuts []int) { check(s2, [][][]byte{c, c2}, cuts) })
		}
	}
}
