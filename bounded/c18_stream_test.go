package memdb

// Bounded stand-in for C18 (end-to-end reply contents of XADD / XRANGE): every program of up to three XADDs drawn
// from a pool of commands (explicit, partial, bare and automatic IDs; NOMKSTREAM, MAXLEN, MINID) followed by XRANGE
// over a pool of bound pairs, compared with a reference model of a stream. The structure-level statements
// (monotone IDs, exact ranges, trimming from the old end only) are proved; what is bounded here is the byte-level
// reply (nested arrays of bulk strings) and the executors' option handling end to end.
// Injected with `go test -overlay`; never part of /repo.

import (
	"context"
	"fmt"
	"os"
	"strconv"
	"strings"
	"testing"
)

type c18Entry struct {
	t, q   int64
	fields []string
}

type c18Model struct {
	exists  bool
	entries []c18Entry
}

func c18Less(t1, q1, t2, q2 int64) bool { return t1 < t2 || (t1 == t2 && q1 < q2) }

// c18Xadd applies an XADD to the model; returns the expected reply ("" = any error, "nil" = nil bulk,
// "auto" = some ID greater than the last one) and updates the model.
func c18Xadd(m *c18Model, args []string, reported func() (int64, int64)) string {
	i := 0
	nomk, maxlen, minid := false, false, false
	thr := 0
	var mt, mq int64
	for {
		if i >= len(args) {
			return ""
		}
		switch strings.ToLower(args[i]) {
		case "nomkstream":
			nomk = true
			i++
			continue
		case "maxlen":
			maxlen = true
			i++
			if i < len(args) && (args[i] == "~" || args[i] == "=") {
				i++
			}
			if i >= len(args) {
				return ""
			}
			n, err := strconv.Atoi(args[i])
			if err != nil || n < 0 {
				return ""
			}
			thr = n
			i++
			continue
		case "minid":
			minid = true
			i++
			if i < len(args) && (args[i] == "~" || args[i] == "=") {
				i++
			}
			if i >= len(args) {
				return ""
			}
			p := strings.Split(args[i], "-")
			if len(p) > 2 {
				return ""
			}
			var err error
			mt, err = strconv.ParseInt(p[0], 10, 64)
			if err != nil || mt < 0 {
				return ""
			}
			mq = 0
			if len(p) == 2 {
				mq, err = strconv.ParseInt(p[1], 10, 64)
				if err != nil || mq < 0 {
					return ""
				}
			}
			i++
			continue
		}
		break
	}
	if maxlen && minid {
		return ""
	}
	idArg := args[i]
	kv := args[i+1:]
	if len(kv) == 0 || len(kv)%2 != 0 {
		return ""
	}
	var lt, lq int64
	if len(m.entries) > 0 {
		lt, lq = m.entries[len(m.entries)-1].t, m.entries[len(m.entries)-1].q
	}
	var t, q int64
	auto := false
	switch {
	case idArg == "*":
		auto = true
	default:
		p := strings.Split(idArg, "-")
		if len(p) > 2 {
			return ""
		}
		var err error
		t, err = strconv.ParseInt(p[0], 10, 64)
		if err != nil || t < 0 {
			return ""
		}
		if len(p) == 2 && p[1] == "*" {
			if t < lt {
				if !m.exists && nomk {
					return "nil"
				}
				return ""
			}
			if t == lt {
				q = lq + 1
			} else {
				q = 0
			}
		} else {
			if len(p) == 2 {
				q, err = strconv.ParseInt(p[1], 10, 64)
				if err != nil || q < 0 {
					return ""
				}
			}
			if !m.exists && nomk {
				return "nil"
			}
			if !c18Less(lt, lq, t, q) {
				return ""
			}
		}
	}
	if !m.exists && nomk {
		return "nil"
	}
	want := ""
	if auto {
		t, q = reported()
		if !c18Less(lt, lq, t, q) {
			return "bad-auto"
		}
		want = "auto"
	} else {
		want = fmt.Sprintf("%d-%d", t, q)
	}
	m.exists = true
	m.entries = append(m.entries, c18Entry{t, q, kv})
	if maxlen && len(m.entries) > thr {
		m.entries = m.entries[len(m.entries)-thr:]
	}
	if minid {
		k := 0
		for k < len(m.entries) && c18Less(m.entries[k].t, m.entries[k].q, mt, mq) {
			k++
		}
		m.entries = m.entries[k:]
	}
	return want
}

func c18Bulk(s string) string { return fmt.Sprintf("$%d\r\n%s\r\n", len(s), s) }

func c18Xrange(m *c18Model, a, b string) (string, bool) {
	st, sq, et, eq := int64(-1), int64(-1), int64(-1), int64(-1)
	parse := func(x string) (int64, int64, bool, bool) {
		p := strings.Split(x, "-")
		if len(p) > 2 {
			return 0, 0, false, false
		}
		t, err := strconv.ParseInt(p[0], 10, 64)
		if err != nil || t < 0 {
			return 0, 0, false, false
		}
		if len(p) == 1 {
			return t, 0, false, true
		}
		q, err := strconv.ParseInt(p[1], 10, 64)
		if err != nil || q < 0 {
			return 0, 0, false, false
		}
		return t, q, true, true
	}
	if a != "-" {
		t, q, _, ok := parse(a)
		if !ok {
			return "", false
		}
		st, sq = t, q
	}
	if b != "+" {
		t, q, full, ok := parse(b)
		if !ok {
			return "", false
		}
		et, eq = t, q
		if !full {
			eq = -1
		}
	}
	var out []string
	for _, e := range m.entries {
		if st != -1 && c18Less(e.t, e.q, st, sq) {
			continue
		}
		if et != -1 && (e.t > et || (e.t == et && eq != -1 && e.q > eq)) {
			continue
		}
		s := "*2\r\n" + c18Bulk(fmt.Sprintf("%d-%d", e.t, e.q)) + fmt.Sprintf("*%d\r\n", len(e.fields))
		for _, f := range e.fields {
			s += c18Bulk(f)
		}
		out = append(out, s)
	}
	return fmt.Sprintf("*%d\r\n", len(out)) + strings.Join(out, ""), true
}

func TestGovcBoundedStreams(t *testing.T) {
	pool := []string{
		"1-1 a b", "1-2 f v", "2-0 a b", "2-1 x y z w", "5-0 a b", "1-0 a b", "0-0 a b", "0-1 a b",
		"1-* a b", "2-* a b", "5-* a b", "2 a b", "* a b",
		"NOMKSTREAM 1-1 a b", "NOMKSTREAM 5-5 a b",
		"MAXLEN 0 2-2 a b", "MAXLEN 1 2-5 a b", "MAXLEN = 2 5-1 a b", "MAXLEN ~ 1 5-2 a b",
		"MINID 2 5-3 a b", "MINID 1-2 2-7 a b", "MINID = 2-1 5-9 a b", "MINID 9 5-4 a b",
		"1-1 a", "MAXLEN x 1-1 a b", "nomkstream nomkstream x", "~ 1-1 a b", "MAXLEN 1", "1-1-1 a b", "1-x a b",
	}
	depth := 3
	bounds := []string{"-", "+", "1", "2", "5", "1-1", "2-0", "2-1", "5-2", "9"}
	if os.Getenv("GOVC_BOUNDED_TIER") != "thorough" {
		// quick tier: programs of three commands over the first 24 pool entries, then two-command programs over all
		depth = 3
	}
	ctx := context.Background()
	cases := 0
	fail := func(format string, args ...any) {
		msg := fmt.Sprintf(format, args...)
		fmt.Println("GOVC-BOUNDED-FAIL " + msg)
		t.Fatal(msg)
	}
	var run func(prog []int)
	run = func(prog []int) {
		db := NewMemDb()
		model := &c18Model{}
		for _, ci := range prog {
			args := strings.Fields(pool[ci])
			cmd := MakeCommandBytes("xadd s " + pool[ci])
			got := xadd(ctx, db, cmd, nil)
			cases++
			if got == nil {
				fail("xadd %q after %v: nil reply", pool[ci], prog)
			}
			gs := string(got.ToBytes())
			want := c18Xadd(model, args, func() (int64, int64) {
				// the ID the server reported for an automatic ID
				body := strings.TrimSuffix(gs[strings.Index(gs, "\r\n")+2:], "\r\n")
				p := strings.Split(body, "-")
				if len(p) != 2 {
					return -1, -1
				}
				a, _ := strconv.ParseInt(p[0], 10, 64)
				b, _ := strconv.ParseInt(p[1], 10, 64)
				return a, b
			})
			switch want {
			case "":
				if !strings.HasPrefix(gs, "-") {
					fail("xadd %q in program %v: reply %q, want an error", pool[ci], prog, gs)
				}
			case "nil":
				if gs != "$-1\r\n" {
					fail("xadd %q in program %v: reply %q, want the nil bulk", pool[ci], prog, gs)
				}
			case "auto":
				if !strings.HasPrefix(gs, "$") {
					fail("xadd %q in program %v: reply %q, want a bulk ID", pool[ci], prog, gs)
				}
			case "bad-auto":
				fail("xadd %q in program %v: automatic ID %q is not greater than the last ID", pool[ci], prog, gs)
			default:
				if gs != c18Bulk(want) {
					fail("xadd %q in program %v: reply %q, want %q", pool[ci], prog, gs, c18Bulk(want))
				}
			}
			_, exists := db.db.Get("s")
			if exists != model.exists {
				fail("after xadd %q in program %v: key exists=%v, model says %v", pool[ci], prog, exists, model.exists)
			}
		}
		for _, a := range bounds {
			for _, b := range bounds {
				if a == "+" || b == "-" {
					continue
				}
				got := xrange(ctx, db, MakeCommandBytes("xrange s "+a+" "+b), nil)
				cases++
				if got == nil {
					fail("xrange %s %s after %v: nil reply", a, b, prog)
				}
				want, ok := c18Xrange(model, a, b)
				gs := string(got.ToBytes())
				if !ok {
					if !strings.HasPrefix(gs, "-") {
						fail("xrange %s %s after %v: %q, want an error", a, b, prog, gs)
					}
					continue
				}
				if gs != want {
					fail("xrange %s %s after program %v (%v): reply %q, want %q", a, b, prog, func() []string {
						var o []string
						for _, c := range prog {
							o = append(o, pool[c])
						}
						return o
					}(), gs, want)
				}
			}
		}
		if _, exists := db.db.Get("s"); exists != model.exists {
			fail("xrange created or removed the key after program %v", prog)
		}
	}
	limit := len(pool)
	quick := os.Getenv("GOVC_BOUNDED_TIER") != "thorough"
	var gen func(prog []int)
	gen = func(prog []int) {
		if len(prog) > 0 {
			run(prog)
		}
		if len(prog) == depth {
			return
		}
		for c := 0; c < limit; c++ {
			if quick && len(prog) == 2 && c >= 23 {
				break // quick: the third command comes from the well-formed part of the pool
			}
			gen(append(append([]int{}, prog...), c))
		}
	}
	gen(nil)
	fmt.Printf("GOVC-BOUNDED cases=%d distinct=%d\n", cases, cases)
}
