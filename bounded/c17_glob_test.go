package util

// Bounded stand-in for C17 (functional part): PattenMatch against a reference matcher
// written from the documented grammar, exhaustively up to a stated bound.
// Injected with `go test -overlay`; never part of /repo.

import (
	"fmt"
	"os"
	"testing"
)

// refClass parses a class starting after '[' at p[i:]; returns (ok, dontCare, end index after ']', matches c).
func refClass(p string, i int, c byte) (ok, dontCare bool, end int, hit bool) {
	neg := false
	if i < len(p) && p[i] == '^' {
		neg = true
		i++
	}
	first := true
	for i < len(p) {
		switch {
		case p[i] == ']':
			if first {
				return true, true, i + 1, false // "[]" / "[^]": not settled by the documentation
			}
			if neg {
				hit = !hit
			}
			return true, false, i + 1, hit
		case p[i] == '\\':
			if i+1 >= len(p) {
				return false, false, 0, false // broken
			}
			if i+2 < len(p) && p[i+2] == '-' {
				return true, true, 0, false // escaped range start: not settled
			}
			if p[i+1] == c {
				hit = true
			}
			i += 2
		case p[i] == '-' || p[i] == '^' || p[i] == '[':
			return true, true, 0, false // special byte in an unsettled position
		default:
			if i+2 < len(p) && p[i+1] == '-' {
				hi := p[i+2]
				if hi == ']' || hi == '\\' || hi == '-' || hi == '^' || hi == '[' {
					return true, true, 0, false
				}
				if p[i] > hi {
					// a reversed range ("[b-a]"): the documented grammar does not say what it denotes (Redis swaps
					// the bounds, other globbers treat it as empty): not settled
					return true, true, 0, false
				}
				if p[i] <= c && c <= hi {
					hit = true
				}
				i += 3
			} else {
				if p[i] == c {
					hit = true
				}
				i++
			}
		}
		first = false
	}
	return false, false, 0, false // unclosed
}

// refMatch: (result, dontCare)
func refMatch(p, s string) (bool, bool) {
	if len(p) == 0 {
		return len(s) == 0, false
	}
	switch p[0] {
	case '*':
		for k := 0; k <= len(s); k++ {
			r, dc := refMatch(p[1:], s[k:])
			if dc {
				return false, true
			}
			if r {
				return true, false
			}
		}
		return false, false
	case '?':
		if len(s) == 0 {
			return false, hasDontCare(p)
		}
		return refMatch(p[1:], s[1:])
	case '[':
		if len(s) == 0 {
			return false, hasDontCare(p)
		}
		ok, dc, end, hit := refClass(p, 1, s[0])
		if dc {
			return false, true
		}
		if !ok {
			return false, false
		}
		if !hit {
			return false, hasDontCare(p[end:])
		}
		return refMatch(p[end:], s[1:])
	case '\\':
		if len(p) < 2 {
			return false, false
		}
		if len(s) == 0 || p[1] != s[0] {
			return false, hasDontCare(p[2:])
		}
		return refMatch(p[2:], s[1:])
	default:
		if len(s) == 0 || p[0] != s[0] {
			return false, hasDontCare(p[1:])
		}
		return refMatch(p[1:], s[1:])
	}
}

// hasDontCare: does the rest of the pattern contain a class the documentation does not settle,
// or is it syntactically broken (then the overall answer must be false whatever came before)?
func hasDontCare(p string) bool {
	for i := 0; i < len(p); i++ {
		switch p[i] {
		case '\\':
			i++
		case '[':
			ok, dc, end, _ := refClass(p, i+1, 0)
			if dc || !ok {
				return true
			}
			i = end - 1
		}
	}
	return false
}

func TestGovcBoundedGlob(t *testing.T) {
	alpha := []byte{'a', 'b', '*', '?', '[', ']', '^', '-', '\\'}
	salpha := []byte{'a', 'b', '-'}
	maxP, maxS := 4, 3
	if os.Getenv("GOVC_BOUNDED_TIER") == "thorough" {
		maxP, maxS = 5, 4
	}
	var pats, subs []string
	var gen func(cur []byte, al []byte, max int, out *[]string)
	gen = func(cur []byte, al []byte, max int, out *[]string) {
		*out = append(*out, string(cur))
		if len(cur) == max {
			return
		}
		for _, c := range al {
			gen(append(cur, c), al, max, out)
		}
	}
	gen(nil, alpha, maxP, &pats)
	gen(nil, salpha, maxS, &subs)
	cases, distinct := 0, 0
	for _, p := range pats {
		for _, s := range subs {
			cases++
			want, dc := refMatch(p, s)
			if dc {
				continue
			}
			distinct++
			got := PattenMatch(p, s)
			if got != want {
				fmt.Printf("GOVC-BOUNDED-FAIL PattenMatch(%q, %q) = %v, reference says %v\n", p, s, got, want)
				t.Fatalf("PattenMatch(%q, %q) = %v, reference says %v", p, s, got, want)
			}
		}
	}
	fmt.Printf("GOVC-BOUNDED cases=%d distinct=%d\n", cases, distinct)
}
