package memdb

// Bounded stand-in for C12: the global invariant of the AVL tree behind a sorted set (binary search tree on score,
// stored heights correct, |balance| <= 1, member index <-> node membership, size = number of members) after every
// command of every small program, and the replies of ZADD / ZREM / ZRANGE / ZRANK against a reference model.
// The local steps (rotations, height bookkeeping) are proved; the global invariant over a mutable tree is not.
// Injected with `go test -overlay`; never part of /repo.

import (
	"context"
	"fmt"
	"math"
	"os"
	"sort"
	"strconv"
	"strings"
	"testing"
)

func c12CheckTree(t *testing.T, z *SortedSet[*SortedSetNode], what string) {
	members := 0
	var walk func(n *Node[*SortedSetNode], lo, hi float64, hasLo, hasHi bool) int64
	walk = func(n *Node[*SortedSetNode], lo, hi float64, hasLo, hasHi bool) int64 {
		if n == nil {
			return 0
		}
		sc := n.Value.GetScore()
		if (hasLo && !(sc > lo)) || (hasHi && !(sc < hi)) {
			t.Fatalf("%s: score %v outside (%v, %v): not a binary search tree", what, sc, lo, hi)
		}
		if len(n.Value.GetNames()) == 0 {
			t.Fatalf("%s: a node without members (score %v)", what, sc)
		}
		for name := range n.Value.GetNames() {
			members++
			d, ok := z.dict[name]
			if !ok || d.Value != n.Value {
				t.Fatalf("%s: member %q of the node with score %v is not indexed to it", what, name, sc)
			}
		}
		lh := walk(n.left, lo, sc, hasLo, true)
		rh := walk(n.right, sc, hi, true, hasHi)
		h := lh
		if rh > h {
			h = rh
		}
		if n.height != h+1 {
			t.Fatalf("%s: stored height %d at score %v, real height %d", what, n.height, sc, h+1)
		}
		if lh-rh > 1 || rh-lh > 1 {
			t.Fatalf("%s: node with score %v is out of balance (left %d, right %d)", what, sc, lh, rh)
		}
		return h + 1
	}
	walk(z.root, 0, 0, false, false)
	if members != len(z.dict) || z.Len() != members {
		t.Fatalf("%s: %d members in the tree, %d in the index, Len() = %d", what, members, len(z.dict), z.Len())
	}
}

type c12Model map[string]float64

func (m c12Model) ordered() []string {
	var names []string
	for n := range m {
		names = append(names, n)
	}
	sort.Slice(names, func(i, j int) bool {
		if m[names[i]] != m[names[j]] {
			return m[names[i]] < m[names[j]]
		}
		return names[i] < names[j]
	})
	return names
}

func c12Bulk(s string) string { return fmt.Sprintf("$%d\r\n%s\r\n", len(s), s) }

func TestGovcBoundedSortedSets(t *testing.T) {
	pool := []string{
		"zadd z 1 a", "zadd z 2 b", "zadd z 3 c", "zadd z 2 c", "zadd z 1 d", "zadd z -1 e", "zadd z 2 a", "zadd z 5 f 4 g 6 h",
		"zadd z nx 9 a", "zadd z XX 9 b", "zadd z xx 7 q", "zadd z gt 0 a", "zadd z GT 8 a", "zadd z lt 0 b", "zadd z ch 2 a 2 b 9 n",
		"zadd z incr 1 a", "zadd z incr 1 new", "zadd z xx incr 1 nosuch", "zadd z nx incr 1 a", "zadd z 1.5 a", "zadd z inf i", "zadd z -inf j",
		"zadd z gt incr 3 a", "zadd z GT INCR -3 a", "zadd z lt incr 5 b", "zadd z lt incr -5 b",
		"zadd z nan a", "zadd z nx xx 1 a", "zadd z 1 a 2", "zadd z ch 1 fresh",
		"zrem z a", "zrem z b c", "zrem z nosuch", "zrem z a b c d e f g h i j n q new fresh",
	}
	depth := 3
	third := 26
	if os.Getenv("GOVC_BOUNDED_TIER") == "thorough" {
		third = len(pool)
	}
	ctx := context.Background()
	cases := 0
	fail := func(format string, args ...any) {
		msg := fmt.Sprintf(format, args...)
		fmt.Println("GOVC-BOUNDED-FAIL " + msg)
		t.Fatal(msg)
	}
	run := func(prog []int) {
		db := NewMemDb()
		model := c12Model{}
		var trace []string
		for _, ci := range prog {
			trace = append(trace, pool[ci])
			args := strings.Fields(pool[ci])
			var got string
			if args[0] == "zadd" {
				got = string(zadd(ctx, db, MakeCommandBytes(pool[ci]), nil).ToBytes())
			} else {
				got = string(zrem(ctx, db, MakeCommandBytes(pool[ci]), nil).ToBytes())
			}
			cases++
			// ---- reference model
			want := ""
			if args[0] == "zrem" {
				n := 0
				for _, mem := range args[2:] {
					if _, ok := model[mem]; ok {
						delete(model, mem)
						n++
					}
				}
				want = fmt.Sprintf(":%d\r\n", n)
			} else {
				i := 2
				var nx, xx, gt, lt, ch, incr bool
				for ; i < len(args)-2; i++ {
					stop := false
					switch strings.ToLower(args[i]) {
					case "nx":
						nx = true
					case "xx":
						xx = true
					case "gt":
						gt = true
					case "lt":
						lt = true
					case "ch":
						ch = true
					case "incr":
						incr = true
					default:
						stop = true
					}
					if stop {
						break
					}
				}
				pairs := args[i:]
				bad := (gt && lt) || (nx && (gt || lt || xx)) || len(pairs)%2 != 0 || (incr && len(pairs) != 2)
				for k := 0; !bad && k < len(pairs); k += 2 {
					f, err := strconv.ParseFloat(pairs[k], 64)
					if err != nil || math.IsNaN(f) {
						bad = true
					}
				}
				if bad {
					want = "ERR"
				} else {
					added, changed := 0, 0
					incrReply := "$-1\r\n"
					for k := 0; k < len(pairs); k += 2 {
						f, _ := strconv.ParseFloat(pairs[k], 64)
						mem := pairs[k+1]
						old, has := model[mem]
						if incr && has {
							f = old + f
						}
						if (!has && xx) || (has && nx) || (has && lt && f >= old) || (has && gt && f <= old) {
							continue
						}
						incrReply = c12Bulk(strconv.FormatFloat(f, 'f', -1, 64))
						if !has {
							added++
						} else if f != old {
							changed++
						}
						model[mem] = f
					}
					if incr {
						want = incrReply
					} else if ch {
						want = fmt.Sprintf(":%d\r\n", added+changed)
					} else {
						want = fmt.Sprintf(":%d\r\n", added)
					}
				}
			}
			if want == "ERR" {
				if !strings.HasPrefix(got, "-") {
					fail("program %q: reply %q, want an error", trace, got)
				}
			} else if got != want {
				fail("program %q: reply %q, want %q", trace, got, want)
			}
			// ---- state: key existence, tree invariant, ZRANGE and ZRANK
			v, exists := db.db.Get("z")
			if exists != (len(model) > 0) {
				fail("program %q: key exists=%v but the model has %d members", trace, exists, len(model))
			}
			if exists {
				c12CheckTree(t, v.(*SortedSet[*SortedSetNode]), fmt.Sprintf("program %q", trace))
			}
			names := model.ordered()
			var exp []string
			for _, n := range names {
				exp = append(exp, c12Bulk(n), c12Bulk(fmt.Sprintf("%f", model[n])))
			}
			full := string(zrange(ctx, db, MakeCommandBytes("zrange z 0 -1 withscores"), nil).ToBytes())
			if full != fmt.Sprintf("*%d\r\n", len(exp))+strings.Join(exp, "") {
				fail("program %q: ZRANGE z 0 -1 WITHSCORES = %q, model order %q", trace, full, names)
			}
			for a := -3; a <= 2; a++ {
				for b := -2; b <= 3; b++ {
					for _, rev := range []bool{false, true} {
						ord := append([]string{}, names...)
						cmdS := fmt.Sprintf("zrange z %d %d", a, b)
						if rev {
							cmdS += " rev"
							for i, j := 0, len(ord)-1; i < j; i, j = i+1, j-1 {
								ord[i], ord[j] = ord[j], ord[i]
							}
						}
						lo, hi := a, b
						if lo < 0 {
							lo += len(ord)
							if lo < 0 {
								lo = 0
							}
						}
						if hi < 0 {
							hi += len(ord)
						}
						if hi >= len(ord) {
							hi = len(ord) - 1
						}
						var w []string
						for i := lo; i <= hi && i < len(ord); i++ {
							w = append(w, c12Bulk(ord[i]))
						}
						g := string(zrange(ctx, db, MakeCommandBytes(cmdS), nil).ToBytes())
						if g != fmt.Sprintf("*%d\r\n", len(w))+strings.Join(w, "") {
							fail("program %q: %s = %q, want members %q", trace, cmdS, g, w)
						}
						cases++
					}
				}
			}
			for i, n := range names {
				g := string(zrank(ctx, db, MakeCommandBytes("zrank z "+n), nil).ToBytes())
				if g != fmt.Sprintf(":%d\r\n", i) {
					fail("program %q: ZRANK z %s = %q, want %d", trace, n, g, i)
				}
			}
			if g := string(zrank(ctx, db, MakeCommandBytes("zrank z absent"), nil).ToBytes()); g != "$-1\r\n" {
				fail("program %q: ZRANK of an absent member = %q", trace, g)
			}
		}
	}
	var gen func(prog []int)
	gen = func(prog []int) {
		if len(prog) > 0 {
			run(prog)
		}
		if len(prog) == depth {
			return
		}
		for c := 0; c < len(pool); c++ {
			if len(prog) == 2 && c >= third {
				break
			}
			gen(append(append([]int{}, prog...), c))
		}
	}
	gen(nil)
	// longer insert / delete sequences: every permutation of 6 distinct scores inserted, then deleted in every rotation
	perm := []int{0, 1, 2, 3, 4, 5}
	var permute func(k int)
	permute = func(k int) {
		if k == len(perm) {
			db := NewMemDb()
			for _, p := range perm {
				zadd(ctx, db, MakeCommandBytes(fmt.Sprintf("zadd z %d m%d", p*10, p)), nil)
				v, _ := db.db.Get("z")
				c12CheckTree(t, v.(*SortedSet[*SortedSetNode]), fmt.Sprintf("insert order %v", perm))
			}
			for r := 0; r < len(perm); r++ {
				p := perm[(r*5+1)%len(perm)]
				zrem(ctx, db, MakeCommandBytes(fmt.Sprintf("zrem z m%d", p)), nil)
				if v, ok := db.db.Get("z"); ok {
					c12CheckTree(t, v.(*SortedSet[*SortedSetNode]), fmt.Sprintf("insert order %v then removals", perm))
				}
				cases++
			}
			return
		}
		for i := k; i < len(perm); i++ {
			perm[k], perm[i] = perm[i], perm[k]
			permute(k + 1)
			perm[k], perm[i] = perm[i], perm[k]
		}
	}
	permute(0)
	fmt.Printf("GOVC-BOUNDED cases=%d distinct=%d\n", cases, cases)
}
