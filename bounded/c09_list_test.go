package memdb

// Bounded stand-in for C09 (whole programs of list commands against a reference model of Redis lists) and for the two
// list primitives whose ghost-sequence proof is not attempted (RemoveElement, Trim).
// Injected with `go test -overlay`; never part of /repo.

import (
	"context"
	"fmt"
	"os"
	"strconv"
	"strings"
	"testing"
)

type c09Model struct {
	lists map[string][]string
	strs  map[string]bool
}

func c09Bulk(s string) string { return fmt.Sprintf("$%d\r\n%s\r\n", len(s), s) }
func c09Int(n int) string     { return fmt.Sprintf(":%d\r\n", n) }
func c09Arr(xs []string) string {
	return fmt.Sprintf("*%d\r\n", len(xs)) + strings.Join(xs, "")
}

const c09Nil = "$-1\r\n"

// returns the set of acceptable replies ("ERR" = any error reply, "WRONGTYPE" = an error starting with WRONGTYPE)
func (m *c09Model) exec(args []string) []string {
	name := strings.ToLower(args[0])
	key := ""
	if len(args) > 1 {
		key = args[1]
	}
	wrong := m.strs[key]
	l, exists := m.lists[key]
	set := func(v []string) {
		if len(v) == 0 {
			delete(m.lists, key)
		} else {
			m.lists[key] = v
		}
	}
	atoi := func(s string) (int, bool) { n, err := strconv.Atoi(s); return n, err == nil }
	norm := func(i, n int) int {
		if i < 0 {
			return n + i
		}
		return i
	}
	switch name {
	case "lpush", "rpush", "lpushx", "rpushx":
		if len(args) < 3 {
			return []string{"ERR"}
		}
		if wrong {
			return []string{"WRONGTYPE"}
		}
		if strings.HasSuffix(name, "x") && !exists {
			return []string{c09Int(0)}
		}
		for _, v := range args[2:] {
			if name[0] == 'l' {
				l = append([]string{v}, l...)
			} else {
				l = append(l, v)
			}
		}
		set(l)
		return []string{c09Int(len(l))}
	case "lpop", "rpop":
		if len(args) != 2 && len(args) != 3 {
			return []string{"ERR"}
		}
		cnt, has := 1, false
		if len(args) == 3 {
			n, ok := atoi(args[2])
			if !ok || n < 0 {
				return []string{"ERR"}
			}
			if n == 0 {
				return []string{"ERR", c09Arr(nil), c09Nil} // don't-care
			}
			cnt, has = n, true
		}
		if wrong {
			return []string{"WRONGTYPE"}
		}
		if !exists {
			if has {
				return []string{c09Nil, "*-1\r\n", c09Arr(nil)}
			}
			return []string{c09Nil}
		}
		var out []string
		for i := 0; i < cnt && len(l) > 0; i++ {
			if name == "lpop" {
				out = append(out, c09Bulk(l[0]))
				l = l[1:]
			} else {
				out = append(out, c09Bulk(l[len(l)-1]))
				l = l[:len(l)-1]
			}
		}
		set(l)
		if !has {
			return []string{out[0]}
		}
		return []string{c09Arr(out)}
	case "llen":
		if len(args) != 2 {
			return []string{"ERR"}
		}
		if wrong {
			return []string{"WRONGTYPE"}
		}
		return []string{c09Int(len(l))}
	case "lindex":
		if len(args) != 3 {
			return []string{"ERR"}
		}
		i, ok := atoi(args[2])
		if !ok {
			return []string{"ERR"}
		}
		if wrong {
			return []string{"WRONGTYPE"}
		}
		i = norm(i, len(l))
		if i < 0 || i >= len(l) {
			return []string{c09Nil}
		}
		return []string{c09Bulk(l[i])}
	case "lrange":
		if len(args) != 4 {
			return []string{"ERR"}
		}
		a, ok1 := atoi(args[2])
		b, ok2 := atoi(args[3])
		if !ok1 || !ok2 {
			return []string{"ERR"}
		}
		if wrong {
			return []string{"WRONGTYPE"}
		}
		a, b = norm(a, len(l)), norm(b, len(l))
		if a < 0 {
			a = 0
		}
		if b >= len(l) {
			b = len(l) - 1
		}
		var out []string
		for i := a; i <= b; i++ {
			out = append(out, c09Bulk(l[i]))
		}
		return []string{c09Arr(out)}
	case "lset":
		if len(args) != 4 {
			return []string{"ERR"}
		}
		i, ok := atoi(args[2])
		if !ok {
			return []string{"ERR"}
		}
		if wrong {
			return []string{"WRONGTYPE"}
		}
		i = norm(i, len(l))
		if !exists || i < 0 || i >= len(l) {
			return []string{"ERR"}
		}
		l[i] = args[3]
		return []string{"+OK\r\n"}
	case "lrem":
		if len(args) != 4 {
			return []string{"ERR"}
		}
		c, ok := atoi(args[2])
		if !ok {
			return []string{"ERR"}
		}
		if wrong {
			return []string{"WRONGTYPE"}
		}
		removed := 0
		var out []string
		if c >= 0 {
			for _, v := range l {
				if v == args[3] && (c == 0 || removed < c) {
					removed++
					continue
				}
				out = append(out, v)
			}
		} else {
			for i := len(l) - 1; i >= 0; i-- {
				if l[i] == args[3] && removed+c < 0 {
					removed++
					continue
				}
				out = append([]string{l[i]}, out...)
			}
		}
		if exists {
			set(out)
		}
		return []string{c09Int(removed)}
	case "ltrim":
		if len(args) != 4 {
			return []string{"ERR"}
		}
		a, ok1 := atoi(args[2])
		b, ok2 := atoi(args[3])
		if !ok1 || !ok2 {
			return []string{"ERR"}
		}
		if wrong {
			return []string{"WRONGTYPE"}
		}
		a, b = norm(a, len(l)), norm(b, len(l))
		if a < 0 {
			a = 0
		}
		if b >= len(l) {
			b = len(l) - 1
		}
		if exists {
			if a > b {
				set(nil)
			} else {
				set(append([]string{}, l[a:b+1]...))
			}
		}
		return []string{"+OK\r\n"}
	case "lmove":
		if len(args) != 5 {
			return []string{"ERR"}
		}
		from, to := strings.ToLower(args[3]), strings.ToLower(args[4])
		if (from != "left" && from != "right") || (to != "left" && to != "right") {
			return []string{"ERR"}
		}
		dst := args[2]
		if wrong {
			return []string{"WRONGTYPE"}
		}
		if !exists {
			return []string{c09Nil}
		}
		if m.strs[dst] {
			return []string{"WRONGTYPE"}
		}
		var e string
		if from == "left" {
			e, l = l[0], l[1:]
		} else {
			e, l = l[len(l)-1], l[:len(l)-1]
		}
		set(l)
		d := m.lists[dst]
		if to == "left" {
			d = append([]string{e}, d...)
		} else {
			d = append(d, e)
		}
		m.lists[dst] = d
		return []string{c09Bulk(e)}
	case "lpos":
		if len(args) < 3 || len(args)%2 != 1 {
			return []string{"ERR"}
		}
		rank, count, maxlen, hasCount := 1, 1, 0, false
		for i := 3; i < len(args); i += 2 {
			n, ok := atoi(args[i+1])
			switch strings.ToLower(args[i]) {
			case "rank":
				if !ok || n == 0 {
					return []string{"ERR"}
				}
				rank = n
			case "count":
				if !ok || n < 0 {
					return []string{"ERR"}
				}
				count, hasCount = n, true
			case "maxlen":
				if !ok || n < 0 {
					return []string{"ERR"}
				}
				maxlen = n
			default:
				return []string{"ERR"}
			}
		}
		if wrong {
			return []string{"WRONGTYPE"}
		}
		var hits []int
		skip := rank
		if skip < 0 {
			skip = -skip
		}
		skip--
		seen := 0
		for k := 0; k < len(l); k++ {
			i := k
			if rank < 0 {
				i = len(l) - 1 - k
			}
			if maxlen > 0 && seen >= maxlen {
				break
			}
			seen++
			if l[i] == args[2] {
				if skip > 0 {
					skip--
					continue
				}
				hits = append(hits, i)
				if count != 0 && len(hits) >= count {
					break
				}
			}
		}
		if !hasCount {
			if len(hits) == 0 {
				return []string{c09Nil}
			}
			return []string{c09Int(hits[0])}
		}
		var out []string
		for _, h := range hits {
			out = append(out, c09Int(h))
		}
		if len(out) == 0 {
			return []string{c09Arr(nil), c09Nil} // an empty array (Redis); nil tolerated as don't-care? no: see check
		}
		return []string{c09Arr(out)}
	}
	return []string{"ERR"}
}

func c09Check(t *testing.T, l *List, what string) {
	n := 0
	for now := l.Head.Next; now != l.Tail; now = now.Next {
		if now == nil {
			t.Fatalf("%s: forward walk fell off the list", what)
		}
		n++
		if n > 1000 {
			t.Fatalf("%s: forward walk does not end", what)
		}
	}
	b := 0
	for now := l.Tail.Prev; now != l.Head; now = now.Prev {
		if now == nil {
			t.Fatalf("%s: backward walk fell off the list", what)
		}
		b++
		if b > 1000 {
			t.Fatalf("%s: backward walk does not end", what)
		}
	}
	if n != b || n != l.Len {
		t.Fatalf("%s: forward walk %d, backward walk %d, Len %d", what, n, b, l.Len)
	}
}

func TestGovcBoundedLists(t *testing.T) {
	pool := []string{
		"lpush k a", "lpush k a b", "rpush k b", "rpush k a b a", "lpush j c", "rpush j a",
		"lpushx k z", "rpushx j z", "lpop k", "rpop k", "lpop k 2", "rpop k 5", "lpop j",
		"llen k", "lindex k 0", "lindex k -1", "lindex k 5", "lindex k -9223372036854775808",
		"lrange k 0 -1", "lrange k 1 1", "lrange k -2 5", "lrange k 2 1", "lrange j 0 -1",
		"lset k 0 x", "lset k -1 a", "lset k 7 y", "lset k -9223372036854775808 y",
		"lrem k 0 a", "lrem k 1 a", "lrem k -1 a", "lrem k -9223372036854775808 a", "lrem k 2 b",
		"ltrim k 0 0", "ltrim k 1 -1", "ltrim k 5 9", "ltrim k -1 -1", "ltrim k 0 -2",
		"lpos k a", "lpos k b", "lpos k a rank 2", "lpos k a rank -1", "lpos k a count 0", "lpos k a count 2", "lpos k a rank -1 count 2", "lpos k a maxlen 1", "lpos k a rank 2 maxlen 2", "lpos k a rank -2 count 0 maxlen 3",
		"lmove k j left right", "lmove k j right left", "lmove k k left right", "lmove j k right right", "lmove k s left left",
		"lpush s a", "llen s", "lpop k 0", "lpop k -1", "lrange k a b", "lpush k",
	}
	exec := map[string]cmdExecutor{"lpush": lPushList, "rpush": rPushList, "lpushx": lPushXList, "rpushx": rPushXList,
		"lpop": lPopList, "rpop": rPopList, "llen": lLenList, "lindex": lIndexList, "lrange": lRangeList, "lset": lSetList,
		"lrem": lRemList, "ltrim": lTrimList, "lpos": lPosList, "lmove": lMoveList}
	depth := 3
	second := len(pool)
	if os.Getenv("GOVC_BOUNDED_TIER") != "thorough" {
		second = 34 // quick tier: third command from the first 34 pool entries
	}
	ctx := context.Background()
	cases := 0
	fail := func(format string, args ...any) {
		msg := fmt.Sprintf(format, args...)
		fmt.Println("GOVC-BOUNDED-FAIL " + msg)
		t.Fatal(msg)
	}
	matches := func(got string, want []string) bool {
		for _, w := range want {
			switch w {
			case "ERR":
				if strings.HasPrefix(got, "-") {
					return true
				}
			case "WRONGTYPE":
				if strings.HasPrefix(got, "-WRONGTYPE") {
					return true
				}
			default:
				if got == w {
					return true
				}
			}
		}
		return false
	}
	run := func(prog []int) {
		db := NewMemDb()
		db.db.Set("s", []byte("str"))
		model := &c09Model{lists: map[string][]string{}, strs: map[string]bool{"s": true}}
		var trace []string
		for _, ci := range prog {
			args := strings.Fields(pool[ci])
			trace = append(trace, pool[ci])
			got := exec[strings.ToLower(args[0])](ctx, db, MakeCommandBytes(pool[ci]), nil)
			cases++
			if got == nil {
				fail("program %q: nil reply", trace)
			}
			gs := string(got.ToBytes())
			want := model.exec(args)
			if !matches(gs, want) {
				fail("program %q: reply %q, want one of %q", trace, gs, want)
			}
			for _, k := range []string{"k", "j"} {
				v, ok := db.db.Get(k)
				ml, mok := model.lists[k]
				if ok != mok {
					fail("program %q: key %s exists=%v, model says %v", trace, k, ok, mok)
				}
				if ok {
					lst, isList := v.(*List)
					if !isList {
						fail("program %q: key %s is not a list", trace, k)
					}
					c09Check(t, lst, fmt.Sprintf("program %q key %s", trace, k))
					var vals []string
					for _, b := range lst.Range(0, -1) {
						vals = append(vals, string(b))
					}
					if fmt.Sprint(vals) != fmt.Sprint(ml) {
						fail("program %q: key %s holds %q, model says %q", trace, k, vals, ml)
					}
				}
			}
		}
	}
	var gen func(prog []int)
	gen = func(prog []int) {
		if len(prog) > 0 {
			run(prog)
		}
		if len(prog) == depth {
			return
		}
		for c := 0; c < len(pool); c++ {
			if len(prog) == 2 && c >= second {
				break
			}
			gen(append(append([]int{}, prog...), c))
		}
	}
	gen(nil)
	fmt.Printf("GOVC-BOUNDED cases=%d distinct=%d\n", cases, cases)
}
