package memdb

// Bounded stand-in for C11 (operand collection of the set-algebra executors): SUNION / SINTER / SDIFF and their
// STORE forms against a reference model, over every small keyspace and key vector up to a stated bound.
// The algebra itself (Set.Union / Intersect / Difference) is proved; what is bounded here is that the executors
// hand exactly the sets at the named keys to it and write exactly its result to the destination.
// Injected with `go test -overlay`; never part of /repo.

import (
	"context"
	"fmt"
	"os"
	"sort"
	"strings"
	"testing"
	"time"

	"github.com/innovationb1ue/RedisGO/resp"
)

type c11State int

const (
	c11Missing c11State = iota
	c11SetX
	c11SetXY
	c11SetYZ
	c11SetEmptyMember
	c11ExpiredSetX
	c11String
	c11ExpiredString
	c11SetXWithTTL
	c11NStates
)

func c11Members(s c11State) ([]string, bool, bool) { // members, live set?, live wrong type?
	switch s {
	case c11SetX, c11SetXWithTTL:
		return []string{"x"}, true, false
	case c11SetXY:
		return []string{"x", "y"}, true, false
	case c11SetYZ:
		return []string{"y", "z"}, true, false
	case c11SetEmptyMember:
		return []string{"", "x"}, true, false
	case c11String:
		return nil, false, true
	}
	return nil, false, false // missing or expired: the empty set
}

func c11Build(names []string, st []c11State) *MemDb {
	m := NewMemDb()
	past := time.Now().Unix() - 100
	future := time.Now().Unix() + 100000
	for i, n := range names {
		switch st[i] {
		case c11Missing:
		case c11String:
			m.db.Set(n, []byte("str"))
		case c11ExpiredString:
			m.db.Set(n, []byte("str"))
			m.ttlKeys.Set(n, &TTLInfo{value: past, cancel: make(chan struct{})})
		case c11ExpiredSetX:
			s := NewSet()
			s.Add("x")
			m.db.Set(n, s)
			m.ttlKeys.Set(n, &TTLInfo{value: past, cancel: make(chan struct{})})
		default:
			s := NewSet()
			ms, _, _ := c11Members(st[i])
			for _, v := range ms {
				s.Add(v)
			}
			m.db.Set(n, s)
			if st[i] == c11SetXWithTTL {
				m.ttlKeys.Set(n, &TTLInfo{value: future, cancel: make(chan struct{})})
			}
		}
	}
	return m
}

func c11Sorted(m map[string]bool) []string {
	var out []string
	for k := range m {
		out = append(out, k)
	}
	sort.Strings(out)
	return out
}

// reference: the result of op over the source keys; wrong=true when some live source holds a non-set
func c11Ref(op string, names []string, st []c11State, srcs []string) (res map[string]bool, wrong bool) {
	state := func(k string) c11State {
		for i, n := range names {
			if n == k {
				return st[i]
			}
		}
		return c11Missing
	}
	res = map[string]bool{}
	sets := make([]map[string]bool, len(srcs))
	for i, k := range srcs {
		ms, _, w := c11Members(state(k))
		if w {
			wrong = true
		}
		sets[i] = map[string]bool{}
		for _, v := range ms {
			sets[i][v] = true
		}
	}
	switch op {
	case "sunion":
		for _, s := range sets {
			for v := range s {
				res[v] = true
			}
		}
	case "sinter":
		for v := range sets[0] {
			all := true
			for _, s := range sets[1:] {
				if !s[v] {
					all = false
				}
			}
			if all {
				res[v] = true
			}
		}
	case "sdiff":
		for v := range sets[0] {
			in := false
			for _, s := range sets[1:] {
				if s[v] {
					in = true
				}
			}
			if !in {
				res[v] = true
			}
		}
	}
	return
}

func c11Arr(r resp.RedisData) (map[string]bool, bool, bool) { // members, is array of bulks, duplicate seen
	a, ok := r.(*resp.ArrayData)
	if !ok {
		return nil, false, false
	}
	out := map[string]bool{}
	dup := false
	for _, e := range a.ToCommand() {
		if out[string(e)] {
			dup = true
		}
		out[string(e)] = true
	}
	for _, e := range a.ToCommand() {
		_ = e
	}
	return out, true, dup
}

func c11IsWrongType(r resp.RedisData) bool {
	e, ok := r.(*resp.ErrorData)
	return ok && strings.HasPrefix(string(e.ToBytes()), "-WRONGTYPE")
}

func c11Cmd(parts ...string) [][]byte {
	out := make([][]byte, len(parts))
	for i, p := range parts {
		out[i] = []byte(p)
	}
	return out
}

func TestGovcBoundedSetAlgebra(t *testing.T) {
	names := []string{"a", "b", "c"}
	maxSrc := 2
	if os.Getenv("GOVC_BOUNDED_TIER") == "thorough" {
		maxSrc = 3
	}
	pool := []string{"a", "b", "c", "nokey"}
	var vectors [][]string
	var gen func(cur []string)
	gen = func(cur []string) {
		if len(cur) > 0 {
			vectors = append(vectors, append([]string{}, cur...))
		}
		if len(cur) == maxSrc {
			return
		}
		for _, p := range pool {
			gen(append(cur, p))
		}
	}
	gen(nil)
	exec := map[string]cmdExecutor{"sunion": sUnionSet, "sinter": sInterSet, "sdiff": sDiffSet,
		"sunionstore": sUnionStoreSet, "sinterstore": sInterStoreSet, "sdiffstore": sDiffStoreSet}
	cases, skipped := 0, 0
	fail := func(format string, args ...any) {
		msg := fmt.Sprintf(format, args...)
		fmt.Println("GOVC-BOUNDED-FAIL " + msg)
		t.Fatal(msg)
	}
	ctx := context.Background()
	st := make([]c11State, 3)
	for s0 := c11State(0); s0 < c11NStates; s0++ {
		for s1 := c11State(0); s1 < c11NStates; s1++ {
			for s2 := c11State(0); s2 < c11NStates; s2++ {
				st[0], st[1], st[2] = s0, s1, s2
				for _, op := range []string{"sunion", "sinter", "sdiff"} {
					for _, srcs := range vectors {
						want, wrong := c11Ref(op, names, st, srcs)
						// ---- read form
						m := c11Build(names, st)
						r := exec[op](ctx, m, c11Cmd(append([]string{op}, srcs...)...), nil)
						cases++
						if wrong {
							// a wrong-typed operand: WRONGTYPE, or (don't-care) the reply when it is already determined
							if !c11IsWrongType(r) {
								got, isArr, _ := c11Arr(r)
								if !isArr || len(got) != 0 {
									fail("%s %v on %v: wrong-typed operand, reply %q", op, srcs, st, r.ToBytes())
								}
								skipped++
							}
						} else {
							got, isArr, dup := c11Arr(r)
							if !isArr || dup || fmt.Sprint(c11Sorted(got)) != fmt.Sprint(c11Sorted(want)) {
								fail("%s %v on %v: reply %q, want members %q", op, srcs, st, r.ToBytes(), c11Sorted(want))
							}
						}
						// ---- STORE form, for every destination
						for _, dst := range []string{"a", "c", "dst"} {
							m := c11Build(names, st)
							dstState := c11Missing
							for i, n := range names {
								if n == dst {
									dstState = st[i]
								}
							}
							r := exec[op+"store"](ctx, m, c11Cmd(append([]string{op + "store", dst}, srcs...)...), nil)
							cases++
							if dstState == c11String || wrong {
								// wrong-typed destination or operand: an error that leaves dst alone, or (don't-care) an overwrite
								if _, isErr := r.(*resp.ErrorData); isErr {
									v, ok := m.db.Get(dst)
									_, isSet := v.(*Set)
									if dstState == c11String && (!ok || isSet) {
										fail("%sstore %s %v on %v: error reply but dst changed", op, dst, srcs, st)
									}
								}
								skipped++
								continue
							}
							ir, isInt := r.(*resp.IntData)
							if !isInt || string(ir.ToBytes()) != fmt.Sprintf(":%d\r\n", len(want)) {
								fail("%sstore %s %v on %v: reply %q, want :%d", op, dst, srcs, st, r.ToBytes(), len(want))
							}
							v, ok := m.db.Get(dst)
							if len(want) == 0 {
								if ok {
									fail("%sstore %s %v on %v: empty result but dst still exists", op, dst, srcs, st)
								}
							} else {
								set, isSet := v.(*Set)
								if !ok || !isSet {
									fail("%sstore %s %v on %v: dst missing or not a set", op, dst, srcs, st)
								}
								got := map[string]bool{}
								for _, e := range set.Members() {
									got[e] = true
								}
								if fmt.Sprint(c11Sorted(got)) != fmt.Sprint(c11Sorted(want)) {
									fail("%sstore %s %v on %v: dst holds %q, want %q", op, dst, srcs, st, c11Sorted(got), c11Sorted(want))
								}
								// the stored set is a new object, not one of the sources
								for _, n := range names {
									if n != dst {
										if ov, ok := m.db.Get(n); ok && ov == v {
											fail("%sstore %s %v on %v: dst shares its set object with %s", op, dst, srcs, st, n)
										}
									}
								}
							}
							if _, has := m.ttlKeys.Get(dst); has {
								fail("%sstore %s %v on %v: dst carries a deadline", op, dst, srcs, st)
							}
							// every other key: unchanged, or collected when expired and named
							for i, n := range names {
								if n == dst {
									continue
								}
								_, ok := m.db.Get(n)
								expired := st[i] == c11ExpiredSetX || st[i] == c11ExpiredString
								named := false
								for _, s := range srcs {
									if s == n {
										named = true
									}
								}
								present := st[i] != c11Missing
								if (present && !(expired && named)) != ok && !(expired && !named && ok) {
									fail("%sstore %s %v on %v: key %s present=%v", op, dst, srcs, st, n, ok)
								}
							}
						}
					}
				}
			}
		}
	}
	fmt.Printf("GOVC-BOUNDED cases=%d distinct=%d skipped=%d\n", cases, cases-skipped, skipped)
}
