package server

// Bounded stand-in for C14: the same program run (a) directly through Manager.ExecCommand, as a standalone
// connection does, and (b) through the cluster path - command filter, RaftProposal encoding (ToBytes), the JSON
// decoding publishEntries performs, ExecCommand on the decoded argument vector - on two managers that start empty,
// must give byte-identical replies after every command and identical keyspaces at the end.
// Injected with `go test -overlay`; never part of /repo.

import (
	"context"
	"encoding/json"
	"fmt"
	"os"
	"sort"
	"testing"

	"github.com/innovationb1ue/RedisGO/config"
	"github.com/innovationb1ue/RedisGO/logger"
	"github.com/innovationb1ue/RedisGO/memdb"
	"github.com/innovationb1ue/RedisGO/raftexample"
	"github.com/innovationb1ue/RedisGO/resp"
)

func c14Reply(r resp.RedisData) string {
	if r == nil {
		return "<nil>"
	}
	return string(r.ToBytes())
}

func c14Cluster(m *Manager, cmd [][]byte) string {
	cmd, err := ClusterCmdFilter(cmd)
	if err != nil {
		return "<filtered>"
	}
	p := &raftexample.RaftProposal{Args: cmd, ID: "id"}
	data := p.ToBytes()
	q := &raftexample.RaftProposal{}
	if err := json.Unmarshal(data, q); err != nil {
		return "<decode error " + err.Error() + ">"
	}
	return c14Reply(m.ExecCommand(context.Background(), q.Args, nil))
}

func c14Dump(m *Manager) string {
	keys := m.ExecCommand(context.Background(), [][]byte{[]byte("keys"), []byte("*")}, nil)
	arr, ok := keys.(*resp.ArrayData)
	if !ok {
		return c14Reply(keys)
	}
	var out []string
	for _, k := range arr.ToCommand() {
		v := m.ExecCommand(context.Background(), [][]byte{[]byte("get"), k}, nil)
		ty := m.ExecCommand(context.Background(), [][]byte{[]byte("type"), k}, nil)
		out = append(out, fmt.Sprintf("%q=%q/%q", k, c14Reply(v), c14Reply(ty)))
	}
	sort.Strings(out)
	return fmt.Sprint(out)
}

func TestGovcBoundedClusterPath(t *testing.T) {
	config.Configures = &config.Config{ShardNum: 16, Databases: 2, ChanBufferSize: 4, LogDir: t.TempDir(), LogLevel: "panic"}
	if err := logger.SetUp(config.Configures); err != nil {
		t.Fatal(err)
	}
	memdb.RegisterKeyCommands()
	memdb.RegisterStringCommands()
	memdb.RegisterHashCommands()
	memdb.RegisterSetCommands()
	alphabet := []byte{' ', '\r', '\n', 0x00, 0xff, 0xc3, 'a', 'A', '"', '\\', '-', '*'}
	var words [][]byte
	words = append(words, []byte{}, nil)
	for _, a := range alphabet {
		words = append(words, []byte{a})
	}
	maxPairs := len(alphabet)
	if os.Getenv("GOVC_BOUNDED_TIER") != "thorough" {
		maxPairs = 6
	}
	for i := 0; i < maxPairs; i++ {
		for _, b := range alphabet {
			words = append(words, []byte{alphabet[i], b})
		}
	}
	words = append(words, []byte("a b"), []byte("  "), []byte("K e y"), []byte("\xe2\x82"), []byte("é"), []byte("SET"))
	names := []string{"set", "SET", "get", "GeT", "append", "del", "strlen", "exists", "sadd", "smembers", "hset", "hget", "ping", "select", "nosuch", "publish", "SUBSCRIBE"}
	cases := 0
	fail := func(format string, args ...any) {
		msg := fmt.Sprintf(format, args...)
		fmt.Println("GOVC-BOUNDED-FAIL " + msg)
		t.Fatal(msg)
	}
	run := func(prog [][][]byte) {
		a := NewManager(config.Configures)
		b := NewManager(config.Configures)
		for _, cmd := range prog {
			cases++
			ra := c14Reply(a.ExecCommand(context.Background(), cmd, nil))
			rb := c14Cluster(b, cmd)
			if rb == "<filtered>" {
				continue // PUBLISH / SUBSCRIBE are rejected in cluster mode by design
			}
			if ra != rb {
				fail("command %q: standalone reply %q, cluster-path reply %q", cmd, ra, rb)
			}
		}
		if da, db := c14Dump(a), c14Dump(b); da != db {
			fail("program %q: keyspaces differ: standalone %s, cluster path %s", prog, da, db)
		}
	}
	// the empty command
	run([][][]byte{{}})
	for _, n := range names {
		run([][][]byte{{[]byte(n)}})
		for _, w1 := range words {
			run([][][]byte{{[]byte(n), w1}})
			for _, w2 := range words {
				// write then read back through both paths
				run([][][]byte{{[]byte(n), w1, w2}, {[]byte("get"), w1}, {[]byte("smembers"), w1}, {[]byte("hget"), w1, w2}})
			}
		}
	}
	// three-argument forms on a sample of words
	for i, w1 := range words {
		if i%5 != 0 {
			continue
		}
		for _, w2 := range words {
			for j, w3 := range words {
				if j%7 != 0 {
					continue
				}
				run([][][]byte{{[]byte("hset"), w1, w2, w3}, {[]byte("hget"), w1, w2}, {[]byte("set"), w2, w3}, {[]byte("append"), w2, w1}, {[]byte("get"), w2}})
			}
		}
	}
	fmt.Printf("GOVC-BOUNDED cases=%d distinct=%d\n", cases, cases)
}
