package memdb

// Demonstration for the fixed C04 defects in raft_command.go (registered in every mode): MEMBER without a
// sub-command and RCONF ADD without an address indexed past the end of the argument vector; the panic is on the
// connection goroutine, which has no recover(), so the server process died. Run with go test -overlay.

import (
	"context"
	"testing"

	"go.etcd.io/etcd/raft/v3/raftpb"
)

func TestGovcDemoRaftCommandArity(t *testing.T) {
	m := NewMemDb()
	b := func(ss ...string) [][]byte {
		out := make([][]byte, len(ss))
		for i, s := range ss {
			out[i] = []byte(s)
		}
		return out
	}
	try := func(name string, f func()) {
		defer func() {
			if r := recover(); r != nil {
				t.Errorf("%s: panic: %v", name, r)
			}
		}()
		f()
	}
	try("MEMBER", func() { Member(context.Background(), m, b("member"), nil) })
	cc := make(chan raftpb.ConfChangeI, 1)
	var send chan<- raftpb.ConfChangeI = cc
	ctx := context.WithValue(context.Background(), "confChangeC", send)
	try("RCONF add 1", func() { rconf(ctx, m, b("rconf", "add", "1"), nil) })
}
