package memdb

// Witness for the known finding C08 / memdb.MemDb.GetSnapshot: the snapshot handed to raft does not determine the
// keyspace. Run with /verif/findings/C08/run.sh (go test -overlay; never part of /repo).

import (
	"context"
	"strings"
	"testing"
)

func TestGovcWitnessSnapshotLossy(t *testing.T) {
	RegisterKeyCommands()
	RegisterStringCommands()
	RegisterSetCommands()
	RegisterHashCommands()
	RegisterListCommands()
	m := NewMemDb()
	ctx := context.Background()
	b := func(ss ...string) [][]byte {
		out := make([][]byte, len(ss))
		for i, s := range ss {
			out[i] = []byte(s)
		}
		return out
	}
	m.ExecCommand(ctx, b("sadd", "members", "alpha", "beta"), nil)
	m.ExecCommand(ctx, b("hset", "user", "name", "carol"), nil)
	m.ExecCommand(ctx, b("set", "greeting", "hello"), nil)
	m.ExecCommand(ctx, b("expire", "greeting", "1000"), nil)
	if r := m.ExecCommand(ctx, b("scard", "members"), nil); string(r.ToBytes()) != ":2\r\n" {
		t.Fatalf("setup: scard = %q", r.ToBytes())
	}
	data, err := m.GetSnapshot()
	if err != nil {
		t.Fatalf("unexpected: %v", err)
	}
	s := string(data)
	t.Logf("snapshot = %s", s)
	lost := 0
	for _, want := range []string{"alpha", "beta", "carol", "1000"} {
		if !strings.Contains(s, want) {
			t.Logf("WITNESS: %q is not in the snapshot", want)
			lost++
		}
	}
	// a list cannot be snapshotted at all
	m.ExecCommand(ctx, b("rpush", "queue", "job1"), nil)
	if _, err := m.GetSnapshot(); err != nil {
		t.Logf("WITNESS: with a list key GetSnapshot fails: %v", err)
		lost++
	}
	if lost == 0 {
		t.Fatalf("the finding is gone: the snapshot now carries set members, hash values, deadlines and lists")
	}
	t.Logf("GOVC-WITNESS holds lost=%d", lost)
}
