package server

// Witness for the known finding C08 / server.handleClusterCommits: a nil commit message ("a snapshot was installed,
// load it") is only logged. A node that restarts after log compaction gets that message instead of the compacted
// entries, so the writes they carried are gone. Run with /verif/findings/C08/run.sh.

import (
	"context"
	"os"
	"testing"

	"github.com/innovationb1ue/RedisGO/config"
	"github.com/innovationb1ue/RedisGO/logger"
	"github.com/innovationb1ue/RedisGO/memdb"
	"github.com/innovationb1ue/RedisGO/raftexample"
	"github.com/innovationb1ue/RedisGO/resp"
	"go.etcd.io/etcd/raft/v3/raftpb"
)

func TestGovcWitnessSnapshotNotLoaded(t *testing.T) {
	dir, _ := os.MkdirTemp("", "govc-w")
	defer os.RemoveAll(dir)
	cfg := &config.Config{Databases: 1, ShardNum: 16, LogDir: dir, LogLevel: "error"}
	config.Configures = cfg
	_ = logger.SetUp(cfg)
	memdb.RegisterKeyCommands()
	memdb.RegisterStringCommands()
	ctx := context.Background()
	// before the restart: an acknowledged write, then a snapshot of the keyspace
	before := NewManager(cfg)
	before.ExecCommand(ctx, [][]byte{[]byte("set"), []byte("k"), []byte("v")}, nil)
	snap, err := before.CurrentDB.GetSnapshot()
	if err != nil {
		t.Fatal(err)
	}
	t.Logf("snapshot taken before the restart: %s", snap)
	// after the restart: the log up to the snapshot is compacted, raft publishes "load the snapshot" (nil)
	after := NewManager(cfg)
	commitC := make(chan *raftexample.RaftCommit)
	errorC := make(chan error)
	done := make(chan struct{})
	go func() {
		handleClusterCommits(ctx, commitC, make(chan raftpb.ConfChangeI, 1), after, map[string]chan resp.RedisData{}, errorC)
		close(done)
	}()
	commitC <- nil
	close(commitC)
	close(errorC)
	<-done
	got := after.ExecCommand(ctx, [][]byte{[]byte("get"), []byte("k")}, nil)
	if string(got.ToBytes()) == "$1\r\nv\r\n" {
		t.Fatalf("the finding is gone: the restarted node serves the acknowledged write")
	}
	t.Logf("WITNESS: after the restart GET k = %q, the acknowledged write is lost", got.ToBytes())
	t.Logf("GOVC-WITNESS holds")
}
