#!/bin/bash
# Replays the witnesses of the known C08 findings against the real code in /repo (go test -overlay: nothing is
# written to /repo). Exit 0 when every witness still shows the defect.
export GOFLAGS=-mod=mod GOPROXY=off GOSUMDB=off GOTOOLCHAIN=local
here=$(cd "$(dirname "$0")" && pwd)
d=$(mktemp -d)
trap 'rm -rf "$d"' EXIT
cat > $d/ov.json <<J
{"Replace":{"/repo/memdb/zz_govc_witness_test.go":"$here/snapshot_lossy_test.go","/repo/server/zz_govc_witness_test.go":"$here/snapshot_not_loaded_test.go"}}
J
cd /repo && go test -overlay $d/ov.json -vet=off -count=1 -timeout 120s -v -run '^TestGovcWitness' ./memdb ./server 2>&1 | grep -E "WITNESS|^(ok|FAIL|---)" 
exit ${PIPESTATUS[0]}
