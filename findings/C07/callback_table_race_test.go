package server

// Demonstration for the fixed C07 defect: the table of pending replies (command ID -> reply channel) was a plain Go
// map written by every client connection goroutine and read by the goroutine that applies committed commands, with
// no synchronisation. With two or more busy clients the Go runtime aborts the process ("fatal error: concurrent map
// writes" / "concurrent map read and map write"). The test drives the real HandleCluster and handleClusterCommits
// with an in-process stand-in for raft that commits every proposal at once. Run with go test -overlay; before the
// fix the test binary dies with the fatal error, after it the test passes.

import (
	"bufio"
	"context"
	"fmt"
	"net"
	"os"
	"sync"
	"testing"

	"github.com/innovationb1ue/RedisGO/config"
	"github.com/innovationb1ue/RedisGO/logger"
	"github.com/innovationb1ue/RedisGO/memdb"
	"github.com/innovationb1ue/RedisGO/raftexample"
	"github.com/innovationb1ue/RedisGO/resp"
	"go.etcd.io/etcd/raft/v3/raftpb"
)

func TestGovcDemoCallbackTableRace(t *testing.T) {
	dir, _ := os.MkdirTemp("", "govc-d")
	defer os.RemoveAll(dir)
	cfg := &config.Config{Databases: 1, ShardNum: 16, ChanBufferSize: 4, LogDir: dir, LogLevel: "panic"}
	config.Configures = cfg
	_ = logger.SetUp(cfg)
	memdb.RegisterKeyCommands()
	memdb.RegisterStringCommands()
	ctx, cancel := context.WithCancel(context.Background())
	defer cancel()
	mgr := NewManager(cfg)
	proposeC := make(chan *raftexample.RaftProposal)
	commitC := make(chan *raftexample.RaftCommit)
	errorC := make(chan error)
	confC := make(chan raftpb.ConfChangeI, 1)
	callback := make(map[string]chan resp.RedisData)
	filter := newMiddleware()
	filter.Add(ClusterCmdFilter)
	go handleClusterCommits(ctx, commitC, confC, mgr, callback, errorC)
	// stand-in for raft: every proposal is committed at once, one per batch
	go func() {
		for p := range proposeC {
			done := make(chan struct{}, 1)
			commitC <- &raftexample.RaftCommit{Data: []*raftexample.RaftProposal{p}, ApplyDoneC: done}
		}
	}()
	const clients, rounds = 8, 1500
	var wg sync.WaitGroup
	for c := 0; c < clients; c++ {
		srv, cli := net.Pipe()
		go mgr.HandleCluster(ctx, srv, proposeC, confC, callback, filter)
		wg.Add(1)
		go func(c int, conn net.Conn) {
			defer wg.Done()
			defer conn.Close()
			rd := bufio.NewReader(conn)
			for i := 0; i < rounds; i++ {
				k := fmt.Sprintf("k%d", c)
				fmt.Fprintf(conn, "*3\r\n$3\r\nSET\r\n$%d\r\n%s\r\n$1\r\nv\r\n", len(k), k)
				if _, err := rd.ReadString('\n'); err != nil {
					t.Errorf("client %d: %v", c, err)
					return
				}
			}
		}(c, cli)
	}
	wg.Wait()
}
