package raftexample

// Demonstration for the fixed C07 defect in publishEntries: a committed membership change that removes a node whose
// ID is not a valid slice bound of rc.Peers (any client can send RCONF DELETE 99) made every node panic when it
// applied the entry - and again on every restart, because the entry stays in the log. Run with go test -overlay.

import (
	"testing"

	"go.etcd.io/etcd/raft/v3"
	"go.etcd.io/etcd/raft/v3/raftpb"
	"go.etcd.io/etcd/server/v3/etcdserver/api/rafthttp"
)

type demoNode struct{ raft.Node }

func (demoNode) ApplyConfChange(cc raftpb.ConfChangeI) *raftpb.ConfState { return &raftpb.ConfState{} }

func TestGovcDemoRemoveUnknownNode(t *testing.T) {
	for _, id := range []uint64{99, 3} {
		rc := &RaftNode{id: 1, Peers: []string{"http://a", "http://b", "http://c"}, Node: demoNode{}, transport: &rafthttp.Transport{}, commitC: make(chan *RaftCommit, 1), stopc: make(chan struct{})}
		cc := raftpb.ConfChangeV2{Changes: []raftpb.ConfChangeSingle{{Type: raftpb.ConfChangeRemoveNode, NodeID: id}}}
		data, err := cc.Marshal()
		if err != nil {
			t.Fatal(err)
		}
		func() {
			defer func() {
				if r := recover(); r != nil {
					t.Errorf("removing node %d: the node panics when it applies the committed entry: %v", id, r)
				}
			}()
			rc.publishEntries([]raftpb.Entry{{Type: raftpb.EntryConfChangeV2, Index: 1, Term: 1, Data: data}})
		}()
		if id == 3 && !t.Failed() && rc.Peers[0] != "http://a" {
			t.Errorf("removing node 3 must not disturb node 1's address: %q", rc.Peers)
		}
	}
}
