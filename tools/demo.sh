#!/bin/bash
# tools/demo.sh <pkgdir under /repo> <TestName> <demo files under /verif/demos ...>: runs a demonstration on the real code
set -e
pkg=$1; test=$2; shift 2
tmp=$(mktemp -d)
printf '{"Replace":{' > $tmp/ov.json
sep=""
for f in "$@"; do printf '%s"/repo/%s/zz_demo_%s":"/verif/demos/%s"' "$sep" "$pkg" "$f" "$f" >> $tmp/ov.json; sep=","; done
printf '}}' >> $tmp/ov.json
cd /repo/$pkg && GOFLAGS=-mod=mod GOPROXY=off GOSUMDB=off go test -overlay $tmp/ov.json -vet=off -count=1 -v -timeout 120s -run "^$test\$" . 2>&1 | grep -v '^=== RUN'
rm -rf $tmp
