#!/bin/bash
# tools/seedverify.sh <worktree> <out-subdir> <pkgdir> [module-dir]
# Confirms a sub-agent's seeded change in its scratch worktree: patch applies, builds, demo fails with it and
# passes without it. Baseline tests are run separately (tools/seedbaseline.sh).
export GOFLAGS=-mod=mod GOPROXY=off GOSUMDB=off GOTOOLCHAIN=local
wt=$1; n=$2; pkg=$3; mod=${4:-.}
if [ "$pkg" = "$mod" ]; then rel=.; elif [ "$mod" = "." ]; then rel=./$pkg; else rel=./${pkg#$mod/}; fi
cd $wt || exit 2
git checkout -q -- . 2>/dev/null; find . -name zz_contracts_verif.go -delete
tn=$(grep -o 'func Test[A-Za-z0-9_]*' out/$n/demo_test.go | head -1 | sed 's/func //')
cp out/$n/demo_test.go $pkg/zz_seed_demo_test.go
( cd $mod && go test -vet=off -count=1 -timeout 120s -run "^$tn\$" $rel >/tmp/seed_without.log 2>&1 ); r0=$?
git apply out/$n/patch.diff || { echo "APPLY FAILED"; rm -f $pkg/zz_seed_demo_test.go; exit 2; }
( cd $mod && go build ./... >/tmp/seed_build.log 2>&1 ); rb=$?
( cd $mod && go test -vet=off -count=1 -timeout 120s -run "^$tn\$" $rel >/tmp/seed_with.log 2>&1 ); r1=$?
rm -f $pkg/zz_seed_demo_test.go
echo "seed $wt/out/$n test=$tn: without=$r0 (want 0) build=$rb (want 0) with=$r1 (want !=0)"
tail -5 /tmp/seed_with.log
