#!/bin/bash
# tools/seedall.sh [jobs] [seed-glob]: must-fail regression over every stored seeded change.
# Each seed is applied to its own scratch worktree of /repo HEAD (outside /repo and /verif, removed afterwards) and the
# quick check of its property is run against that worktree (REPO_ROOT); the check must exit 1 with a VIOLATION line.
# Nothing is written to /repo; evidence files are not rewritten (GOVC_NO_EVIDENCE=1).
jobs=${1:-4}; glob=${2:-*}
cd /verif
run_one() {
  seed=$1; d=/verif/seeded/$seed
  prop=$(python3 -c "import json; print(json.load(open('$d/meta.json'))['property'])")
  wt=$(mktemp -d /tmp/seedchk-XXXXXX); rmdir $wt
  git -C /repo worktree add -q --detach $wt HEAD || { echo "$seed ERROR worktree"; return; }
  if ! git -C $wt apply $d/patch.diff 2>/dev/null; then echo "$seed ERROR patch does not apply"; git -C /repo worktree remove --force $wt; return; fi
  res=""
  for id in $(echo $prop | tr '+,' '  '); do
    out=$(REPO_ROOT=$wt GOVC_NO_EVIDENCE=1 VERIF_ROOT=/verif bin/govc check $id quick 2>&1); rc=$?
    n=$(echo "$out" | grep -c '^VIOLATION')
    res="$res $id:rc=$rc,violations=$n"
    [ $rc -eq 1 ] && [ $n -gt 0 ] && caught=1
  done
  git -C /repo worktree remove --force $wt
  if [ -n "$caught" ]; then echo "$seed CAUGHT$res"; else echo "$seed MISSED$res"; fi
}
export -f run_one
ls /verif/seeded | grep -v '^\.' | while read s; do case $s in $glob) echo $s;; esac; done | xargs -P $jobs -I{} bash -c 'caught=; run_one {}'
