#!/bin/bash
# tools/runall.sh [tier]: every claimed check on the current tree, one summary line each
tier=${1:-quick}
cd /verif
for id in $(python3 -c "import json; print(' '.join(c['property_id'] for c in json.load(open('MANIFEST.json'))['checks']))"); do
  out=$(bin/check $id $tier 2>&1); rc=$?
  echo "$id rc=$rc $(echo "$out" | grep '^govc: C' | tail -1)"
  [ $rc -ne 0 ] && echo "$out" | grep -E "VIOLATION|vacuous" | head -5
done
