#!/bin/bash
# tools/seedrun.sh <patch.diff> <property>... : apply a seeded change to /repo, run the quick checks, undo it.
p=$1; shift
cd /repo && [ -z "$(git status --porcelain)" ] || { echo "/repo not clean"; exit 2; }
git -C /repo apply $p || exit 2
for id in "$@"; do
  out=$(cd /verif && GOVC_NO_EVIDENCE=1 bin/check $id quick 2>&1); rc=$?
  echo "== $id rc=$rc"; echo "$out" | grep -E "VIOLATION|KNOWN|failed|unknown|sat " | head -8
done
git -C /repo checkout -- .
