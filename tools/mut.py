#!/usr/bin/env python3
"""Quick mutant run: tools/mut.py <repo-relative file> <old text> <new text> -- govc func args...
Builds a go overlay of /repo's file with old replaced by new (exactly once) and runs bin/govc with it."""
import sys, os, json, subprocess, tempfile
a = sys.argv[1:]
i = a.index('--')
f, old, new = a[0], a[1].encode().decode('unicode_escape'), a[2].encode().decode('unicode_escape')
src = open('/repo/' + f).read()
assert src.count(old) == 1, "old text occurs %d times" % src.count(old)
d = tempfile.mkdtemp(prefix='mut')
mf = os.path.join(d, os.path.basename(f))
open(mf, 'w').write(src.replace(old, new))
ov = os.path.join(d, 'ov.json')
json.dump({'/repo/' + f: mf}, open(ov, 'w'))
env = dict(os.environ, GOVC_OVERLAY=ov, GOVC_NO_EVIDENCE='1')
r = subprocess.run(['/verif/bin/govc'] + a[i + 1:], env=env)
subprocess.run(['rm', '-rf', d])
sys.exit(r.returncode)
