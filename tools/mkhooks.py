#!/usr/bin/env python3
"""Regenerates tools/hooks.json's source_commits from /repo's history (commits whose message starts 'verif:')."""
import json, subprocess, os
root = os.path.dirname(os.path.dirname(os.path.abspath(__file__)))
p = os.path.join(root, 'tools', 'hooks.json')
h = json.load(open(p))
log = subprocess.check_output(['git', '-C', '/repo', 'log', '--reverse', '--format=%h %s']).decode().splitlines()
h['source_commits'] = [l.split()[0] for l in log if l.split(' ', 1)[1].startswith('verif:')]
json.dump(h, open(p, 'w'), indent=1)
print(len(h['source_commits']), "hook commits")
