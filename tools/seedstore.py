#!/usr/bin/env python3
"""tools/seedstore.py <seed-id> <agent out dir> <property> <pkgdir> <caught_by|MISSED> <needs text> [<note>]
Files a confirmed seeded change under /verif/seeded/<seed-id>/ (patch.diff, demo_test.go, README.md, meta.json)."""
import sys, os, json, shutil, re
sid, src, prop, pkg, caught, needs = sys.argv[1:7]
note = sys.argv[7] if len(sys.argv) > 7 else ""
d = '/verif/seeded/' + sid
os.makedirs(d, exist_ok=True)
for f in ('patch.diff', 'demo_test.go', 'README.md'):
    if os.path.exists(os.path.join(src, f)):
        shutil.copy(os.path.join(src, f), os.path.join(d, f if f != 'demo_test.go' else 'demo_test.go.txt'))
demo = open(os.path.join(src, 'demo_test.go')).read()
tn = re.search(r'func (Test\w+)', demo).group(1)
meta = {
    "seed": sid, "property": prop, "origin": "fresh sub-agent given only the property text and a scratch worktree",
    "needs_to_manifest": needs,
    "demonstration": {"file": "demo_test.go.txt", "copy_to": pkg + "/", "test": tn},
    "confirmed": "in a scratch worktree of /repo HEAD: git apply patch.diff; go build ./...; the demo test fails with the patch and passes without it; go test the existing tests of the touched module pass with the patch (main module: ./memdb ./util ./server ./raftexample and the four stable ./resp tests; etcd/raft: . ./quorum ./tracker ./confchange; etcd/server: ./storage/wal/...) (tools/seedverify.sh)",
    "check_run": "tools/seedrun.sh patch.diff <property>: git -C /repo apply; bin/check <property> quick; git -C /repo checkout -- .",
    "caught_by": caught,
}
if note: meta["note"] = note
json.dump(meta, open(os.path.join(d, 'meta.json'), 'w'), indent=1)
print("stored", d)
