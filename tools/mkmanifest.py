#!/usr/bin/env python3
"""Builds /verif/MANIFEST.json from /verif/tools/claims.json (per-property texts) and the plan files."""
import json, os, sys
root = os.path.dirname(os.path.dirname(os.path.abspath(__file__)))
props = [json.loads(l) for l in open(os.path.join(root, 'properties.jsonl'))]
claims = json.load(open(os.path.join(root, 'tools', 'claims.json')))
hooks = json.load(open(os.path.join(root, 'tools', 'hooks.json')))
checks, na = [], []
for p in props:
    pid = p['id']
    c = claims.get(pid)
    if c and c.get('claimed') and os.path.exists(os.path.join(root, 'plan', pid + '.json')):
        checks.append({
            "property_id": pid,
            "quick_cmd": f"bin/check {pid} quick",
            "thorough_cmd": f"bin/check {pid} thorough",
            "evidence_file": f"evidence/{pid}.json",
            "replay_cmd_template": "bin/govc replay {path}",
            "engine": "govc",
            "level_claimed": {"category": c['level'], "text": c['text'], "design_ref": c.get('design_ref', 'DESIGN.md section 7')},
            "level_note": c['note'],
            "technique": c.get('technique', 'contract-based deductive verification: //@ contracts on the real Go functions, VCs generated from go/ssa by govc, discharged by z3/cvc5'),
        })
    else:
        na.append({"property_id": pid, "reason": (c or {}).get('na_reason', 'engine stage not reached yet (build in progress); see DESIGN.md section 12')})
m = {
    "version": 1,
    "setup_cmd": "bin/setup",
    "hooks": hooks,
    "engines": [{"name": "govc", "path": "govc", "serves_properties": [c['property_id'] for c in checks],
                 "kind_free_text": "home-made VC generator over go/ssa (x/tools v0.29.0) for contracts kept as //@ comments in /repo/*/zz_contracts_verif.go; obligations discharged by z3 4.8.12 / z3-new 5.1.0 / cvc5 1.0.3; counterexamples replayed with go test -overlay"}],
    "checks": checks,
    "notes": "Contract-based deductive verification of the real code; see DESIGN.md. known_findings.json lists recorded defects and fixed ones.",
    "not_applicable": na,
}
json.dump(m, open(os.path.join(root, 'MANIFEST.json'), 'w'), indent=1)
print(f"{len(checks)} checks, {len(na)} not applicable")
