#!/usr/bin/env python3
"""Generates plan files for the memdb-wide properties from one table of verified functions."""
import json, os
root = os.path.dirname(os.path.dirname(os.path.abspath(__file__)))
T = json.load(open(os.path.join(root, 'tools', 'plan_table.json')))
def write(pid, level, pkgs, funcs, assumptions, bounded=None, lemmas=None):
    p = {"property": pid, "level": level, "packages": pkgs, "functions": funcs, "assumptions": assumptions}
    if bounded: p["bounded"] = bounded
    if lemmas: p["lemmas"] = lemmas
    json.dump(p, open(os.path.join(root, 'plan', pid + '.json'), 'w'), indent=1)
for pid, spec in T.items():
    funcs = []
    for grp in spec["groups"]:
        for k in grp["keys"]:
            funcs.append({"key": k, "select": grp["select"]})
    write(pid, spec["level"], spec["packages"], funcs, spec.get("assumptions", []), spec.get("bounded"), spec.get("lemmas"))
print("plans:", ", ".join(T.keys()))
