#!/usr/bin/env python3
"""Generates plan files (/verif/plan/<id>.json) from tools/plan_table.json: named function sets + per-property groups."""
import json, os
root = os.path.dirname(os.path.dirname(os.path.abspath(__file__)))
T = json.load(open(os.path.join(root, 'tools', 'plan_table.json')))
sets = T['sets']
def expand(keys):
    out = []
    for k in keys:
        if k.startswith('@'):
            out += expand(sets[k[1:]])
        else:
            out.append(k)
    return out
for pid, spec in T['plans'].items():
    funcs, seen = [], set()
    for grp in spec['groups']:
        for k in expand(grp['keys']):
            if k in seen:
                continue
            seen.add(k)
            funcs.append({"key": k, "select": grp['select']})
    p = {"property": pid, "level": spec['level'], "packages": spec['packages'], "functions": funcs, "assumptions": spec.get('assumptions', [])}
    for opt in ('bounded', 'lemmas'):
        if spec.get(opt):
            p[opt] = spec[opt]
    json.dump(p, open(os.path.join(root, 'plan', pid + '.json'), 'w'), indent=1)
print("plans:", ", ".join(T['plans'].keys()))
